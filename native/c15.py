"""C15 native side: histories of run/call/clear_output/set_input/queue_input/clear_input on one
real Sandbox against a reference model typed from the statement (bounded stand-in B-io), and
replay of append_output / set_input / input-tracker witnesses."""
import itertools
import random

PROGRAMS = [
    ("", ""), ("x = 1", ""), ("print('a')", "a\n"), ("print('a', end='')", "a"), ("print()", "\n"),
    ("print('a  ')\nprint()\nprint(' b')", "a  \n\n b\n"), ("import sys\nsys.stdout.write('w')", "w"),
    ("print('a', 'b', sep='-')", "a-b\n"), ("print('bye')\nraise SystemExit", "bye\n"),
    ("import sys\nprint('x', end='')\nsys.exit(0)", "x"), ("print('e')\n1/0", "e\n"), ("print('x\\n\\n')", "x\n\n\n"), ("print('  ')", "  \n"),
    # executions ended by an exception that is not the sandbox's to swallow: what was printed before still counts
    ("print('k')\nraise KeyboardInterrupt", "k\n"), ("print('g', end='')\nraise GeneratorExit", "g"),
    ("class Stop(BaseException):\n    pass\nprint('s1')\nprint('s2')\nraise Stop()", "s1\ns2\n"),
]
INPUT_PROGRAMS = [
    ("v = input('p')\nprint(v)", 1), ("a = input()\nb = input('q')\nprint(a + b)", 2), ("v = input('only prompt')", 1),
]


def lines_view(t):
    if t == "":
        return []
    return [l.rstrip() for l in t.rstrip().split("\n")]


def fresh_sandbox():
    from pedal.core.report import Report
    from pedal.core.submission import Submission
    from pedal.sandbox.sandbox import Sandbox
    report = Report()
    report.contextualize(Submission(main_code="pass"))
    return Sandbox(report=report), report


def run_history(ops):
    """ops: list of tuples; returns (failures, final observation)"""
    sb, report = fresh_sandbox()
    raw, lines, queue = "", [], []
    fails = []
    for step, op in enumerate(ops):
        kind = op[0]
        if kind == 'run':
            code, out = op[1], op[2]
            before_ctx = len(sb._context)
            try:
                sb.run(code)
            except BaseException:
                pass            # KeyboardInterrupt / GeneratorExit / other non-Exception classes travel on to the grader
            raw += out
            lines += lines_view(out)
            share = sb._context[-1].output if len(sb._context) > before_ctx else None
            if share != out:
                fails.append(('execution_share', step, share, out))
        elif kind == 'run_echo':
            # real_io=True: output is echoed to the real stdout as well as captured; the input queue is cleared afterwards
            code, out = op[1], op[2]
            before_ctx = len(sb._context)
            sb.run(code, real_io=True)
            queue = []
            raw += out
            lines += lines_view(out)
            share = sb._context[-1].output if len(sb._context) > before_ctx else None
            if share != out:
                fails.append(('execution_share', step, share, out))
        elif kind == 'run_timeout':
            # threaded execution that prints and then exceeds the limit: what it wrote is still its output
            code, out = op[1], op[2]
            before_ctx = len(sb._context)
            sb.threaded, sb.allowed_time = True, 0.3
            try:
                sb.run(code)
            finally:
                sb.threaded = False
            import threading, time
            deadline = time.time() + 3
            while threading.active_count() > 1 and time.time() < deadline:
                time.sleep(0.01)
            raw += out
            lines += lines_view(out)
            share = sb._context[-1].output if len(sb._context) > before_ctx else None
            if share != out:
                fails.append(('execution_share', step, share, out))
        elif kind == 'run_input':
            code, n = op[1], op[2]
            got_inputs = []
            expect_out = ""
            # reference: each input() echoes prompt + newline, returns head of the queue or '0'
            import re
            prompts = re.findall(r"input\((?:'([^']*)')?\)", code)
            vals = []
            for pr in prompts:
                expect_out += (pr or "") + "\n"
                vals.append(queue.pop(0) if queue else '0')
            if 'print(v)' in code:
                expect_out += vals[0] + "\n"
            if 'print(a + b)' in code:
                expect_out += vals[0] + vals[1] + "\n"
            sb.run(code)
            raw += expect_out
            lines += lines_view(expect_out)
            if sb._context[-1].inputs != vals:
                fails.append(('inputs_fifo', step, sb._context[-1].inputs, vals))
        elif kind == 'clear_output':
            sb.clear_output()
            raw, lines = "", []
        elif kind == 'set_input':
            val, clear = op[1], op[2]
            sb.set_input(val, clear=clear)
            if clear:
                queue = []
            if val is None:
                queue = []
            elif isinstance(val, str):
                queue.append(val)
            elif isinstance(val, (int, float, bool)):
                queue.append(str(val))
            else:
                queue += [str(v) for v in val]
        elif kind == 'clear_input':
            sb.clear_input()
            queue = []
        if sb.raw_output != raw:
            fails.append(('raw_output', step, sb.raw_output, raw))
        if sb.output != lines:
            fails.append(('output_lines', step, sb.output, lines))
        if list(sb.inputs) != queue:
            fails.append(('queue', step, list(sb.inputs), queue))
        if fails:
            break
    return fails


def gen_history(rnd, n):
    ops = []
    for _ in range(n):
        r = rnd.random()
        if r < 0.55:
            code, out = rnd.choice(PROGRAMS)
            ops.append(('run', code, out))
        elif r < 0.7:
            code, k = rnd.choice(INPUT_PROGRAMS)
            ops.append(('run_input', code, k))
        elif r < 0.8:
            ops.append(('clear_output',))
        elif r < 0.95:
            ops.append(('set_input', rnd.choice([None, 'x', 5, 2.5, True, ['a', 'b'], ('c', 1), []]), rnd.choice([True, False])))
        else:
            ops.append(('clear_input',))
    return ops


def bounded(arg):
    n = 150 if arg.get('tier') == 'quick' else 3000
    rnd = random.Random(arg.get('seed', 0) * 31 + 5)
    failures, samples = [], []
    distinct = set()
    evaluations = 0
    # exhaustive pairs of programs first (the shortest histories that can show a cross-execution effect)
    hist = [[('run', a[0], a[1]), ('run', b[0], b[1])] for a in PROGRAMS for b in PROGRAMS]
    slow = [('run_timeout', "print('before')\nwhile True:\n    pass", "before\n"),
            ('run_timeout', "import sys\nsys.stdout.write('w')\nprint('  x  ')\nwhile True:\n    pass", "w  x  \n"),
            ('run_timeout', "while True:\n    pass", "")]
    a, b = ('run', "print('a')", "a\n"), ('run', "print()", "\n")
    echo = [('run_echo', "print('a')\nprint('b', end='')", "a\nb"),
            ('run_echo', "import sys\nsys.stdout.writelines(x for x in ['a\\n', 'b\\n'])", "a\nb\n"),
            ('run_echo', "import sys\nsys.stdout.writelines(['c', 'd'])\nsys.stdout.write('e')\nsys.stdout.flush()", "cde")]
    hist += [[t] for t in echo] + [[('run', "print('a')", "a\n"), echo[1], ('run', "print()", "\n")]]
    hist += [[t] for t in slow] + [[a, slow[0], b], [slow[1], ('clear_output',), a], [slow[2], a], [slow[0], slow[0]]]
    hist += [gen_history(rnd, rnd.randint(1, 6)) for _ in range(n)]
    for ops in hist:
        evaluations += 1
        distinct.add(tuple(o[0] + ':' + repr(o[1:2]) for o in ops))
        fails = run_history(ops)
        if len(samples) < 2:
            samples.append([list(o) for o in ops])
        for f in fails:
            what = f[0]
            canon = what
            if what in ('output_lines',) and any(o[0] == 'run' and o[2] == "" for o in ops):
                canon = 'output_lines after an execution that printed nothing'
            failures.append({'id': what, 'canon': canon, 'detail': 'step %d: got %r want %r' % (f[1], f[2], f[3]),
                             'history': [list(o) for o in ops]})
    return {'name': 'B-io', 'bound': 'all %d ordered pairs of %d printing programs + %d random histories of 1-6 operations '
            '(run / run with input() / clear_output / set_input / clear_input) on one real Sandbox + 4 histories with output echoed to the real stdout (real_io) + 7 histories with a '
            'threaded execution that prints and then runs out of time (0.3 s)' % (
                len(PROGRAMS) ** 2, len(PROGRAMS), n),
            'evaluations': evaluations, 'distinct_nontrivial': len(distinct),
            'rule': 'distinct = sequence of (operation, first argument)', 'samples': samples, 'failures': failures}


def ground(arg):
    return []


def replay(case):
    target, clause = case['target'], case['clause']
    w = case.get('witness') or {}
    if target.endswith('append_output'):
        texts = ['', 'a', 'a\n', '\n', ' x \n\n', 'a\nb']
        cands = [(w.get('previous'), w.get('raw_output'))] if isinstance(w.get('raw_output'), str) and isinstance(w.get('previous'), str) else []
        cands += list(itertools.product(texts, texts))
        for prev, new in cands:
            sb, _ = fresh_sandbox()

            class Ctx:
                output = None
            ctx = Ctx()
            sb.raw_output = prev
            sb.output = lines_view(prev)
            before = list(sb.output)
            sb.append_output(new, ctx)
            bad = None
            if clause == 'raw_is_concatenation' and sb.raw_output != prev + new:
                bad = 'raw'
            if clause == 'execution_share' and ctx.output != new:
                bad = 'share'
            if clause == 'silent_execution_adds_no_line' and new == '' and sb.output != before:
                bad = 'phantom line'
            if clause == 'lines_appended_in_order' and new != '' and sb.output != before + lines_view(new):
                bad = 'lines'
            if bad:
                return {'confirmed': True, 'canon': 'append_output.%s (%s)' % (clause, 'silent execution after output' if new == '' else 'text'),
                        'input': {'previous_raw_output': prev, 'new_text': new},
                        'observed': {'output': sb.output, 'expected': before + lines_view(new), 'raw_output': sb.raw_output}}
        return {'confirmed': False, 'note': 'append_output satisfied %s on %d inputs' % (clause, len(cands))}
    if target.endswith('set_input') or target.endswith('clear_input'):
        for old in ([], ['q']):
            for val in (None, 's', 3, 2.5, True, ['a', 1], ('b',), []):
                for clear in (True, False):
                    sb, _ = fresh_sandbox()
                    sb.inputs = list(old)
                    sb.set_input(val, clear=clear)
                    base = [] if (clear or val is None) else list(old)
                    want = base + ([] if val is None else [val] if isinstance(val, str) else [str(val)] if isinstance(val, (int, float, bool)) else [str(v) for v in val])
                    if list(sb.inputs) != want:
                        return {'confirmed': True, 'canon': 'set_input(%s, clear=%r)' % (type(val).__name__, clear),
                                'input': {'old': old, 'inputs': val, 'clear': clear},
                                'observed': {'queue': list(sb.inputs), 'expected': want}}
        return {'confirmed': False}
    if '_input_tracker' in target:
        for q in ([], ['a'], ['a', 'b']):
            sb, _ = fresh_sandbox()
            sb.set_input(list(q))
            sb.run("v = input('p')\nw = input()")
            want = (q + ['0', '0'])[:2]
            got = sb._context[-1].inputs
            if got != want or list(sb.inputs) != q[2:] or sb.raw_output != "p\n\n":
                return {'confirmed': True, 'canon': 'input tracker with %d queued' % len(q), 'input': {'queue': q},
                        'observed': {'returned': got, 'expected': want, 'queue_after': list(sb.inputs), 'raw_output': sb.raw_output}}
        return {'confirmed': False}
    if target.endswith('clear_output'):
        sb, _ = fresh_sandbox()
        sb.run("print('a')")
        sb.clear_output()
        if sb.raw_output != '' or sb.output != []:
            return {'confirmed': True, 'canon': 'clear_output', 'input': {}, 'observed': {'raw': sb.raw_output, 'output': sb.output}}
        return {'confirmed': False}
    return {'confirmed': False, 'note': 'no replay builder'}
