"""Runner for the native side (executed by /venv/bin/python, the interpreter pedal's own
tests use): ground obligations whose oracle is CPython, bounded stand-ins, and replays of
solver counterexamples on the real code.  usage: run.py <module> <command> [json]
Prints one JSON document on the last line of stdout."""
import importlib
import io
import json
import os
import sys
import traceback

sys.path.insert(0, os.path.dirname(os.path.abspath(__file__)))
REPO = os.environ.get('PEDAL_REPO', '/repo')
sys.path.insert(0, REPO)


def main():
    modname, cmd = sys.argv[1], sys.argv[2]
    arg = json.loads(sys.argv[3]) if len(sys.argv) > 3 else {}
    real_stdout = sys.stdout
    sys.stdout = io.StringIO()       # pedal and student code may print
    try:
        mod = importlib.import_module(modname)
        out = getattr(mod, cmd)(arg)
        doc = {'ok': True, 'result': out}
    except Exception:
        doc = {'ok': False, 'error': traceback.format_exc()}
    sys.stdout = real_stdout
    print(json.dumps(doc, default=repr))


if __name__ == '__main__':
    main()
