"""C07 native side: bounded stand-in B-ops(assertions).  Every runtime assertion x ordered pairs of
operand values x wrapping combination (raw/raw, proxy/raw, raw/proxy, proxy/proxy): the assertion is
silent exactly when the Python relation holds; relations that cannot be evaluated, and error operands,
count as not holding; each assertion and its negation never agree on evaluable operands; equality is
symmetric; unit_test counts truthfully."""
import itertools
import math
import re


def operands():
    return [('int', 3), ('int2', 5), ('zero', 0), ('float', 3.0), ('near', 3.0005), ('far', 3.5), ('nan', float('nan')),
            ('bool', True), ('str', 'Hello, World!'), ('str_case', 'hello world'), ('str2', 'abc'), ('empty', ''),
            ('list', [1, 2]), ('list2', [1, 2, 3]), ('tuple', (1, 2)), ('dict', {'a': 1}), ('set', {1}), ('set2', {1, 2}),
            ('none', None), ('nested', [1.0, (2, 'X')]), ('nested2', [1.0004, (2, 'x')]), ('money', Money(3)),
            ('huge', 10 ** 400), ('near_one', 1.0005), ('one', 1.0), ('inf', float('inf')), ('bytes', b'abc'), ('bytes2', b'abd'),
            # same keys in another insertion order, values equal only through the tolerance / crossed values
            ('dict_ab', {'apple': 1.0001, 'pear': 2}), ('dict_ba', {'pear': 2, 'apple': 1.0}),
            ('dict_crossed', {'pear': 1.0, 'apple': 2.0001}), ('dict_text', {'k': 'Hello, World!', 'j': 2}),
            ('dict_text2', {'j': 2, 'k': 'hello world'}),
            ('dict_A', {'A': 1}), ('dict_a', {'a': 1}), ('set_near', {1.0, 1.0005}), ('set_far', {1.0, 2.0})]


class Money:
    """student-style value object whose comparisons assume the other side is Money too"""
    def __init__(self, amount):
        self.amount = amount

    def __eq__(self, other):
        return self.amount == other.amount

    def __lt__(self, other):
        return self.amount < other.amount

    def __le__(self, other):
        return self.amount <= other.amount

    def __gt__(self, other):
        return self.amount > other.amount

    def __ge__(self, other):
        return self.amount >= other.amount

    def __contains__(self, item):
        return item.amount == self.amount

    def __hash__(self):
        return hash(self.amount)

    def __repr__(self):
        return 'Money(%r)' % self.amount


def holds(fn):
    try:
        return bool(fn()), True
    except Exception:
        return False, False


def relations():
    """assertion name -> (relation over raw operands, name of the negated assertion or None)"""
    R = {
        'assert_less': (lambda a, b: a < b, None), 'assert_less_equal': (lambda a, b: a <= b, None),
        'assert_greater': (lambda a, b: a > b, None), 'assert_greater_equal': (lambda a, b: a >= b, None),
        'assert_in': (lambda a, b: a in b, 'assert_not_in'), 'assert_not_in': (lambda a, b: a not in b, 'assert_in'),
        'assert_is': (lambda a, b: a is b, 'assert_is_not'), 'assert_is_not': (lambda a, b: a is not b, 'assert_is'),
        'assert_length_equal': (lambda a, b: len(a) == b, 'assert_length_not_equal'),
        'assert_length_not_equal': (lambda a, b: len(a) != b, 'assert_length_equal'),
        'assert_length_less': (lambda a, b: len(a) < b, None), 'assert_length_less_equal': (lambda a, b: len(a) <= b, None),
        'assert_length_greater': (lambda a, b: len(a) > b, None),
        'assert_length_greater_equal': (lambda a, b: len(a) >= b, None),
    }
    U = {
        'assert_true': (lambda a: bool(a), 'assert_false'), 'assert_false': (lambda a: not bool(a), 'assert_true'),
        'assert_is_none': (lambda a: a is None, 'assert_is_not_none'),
        'assert_is_not_none': (lambda a: a is not None, 'assert_is_none'),
    }
    return R, U


def ref_equal(a, b, delta=0.001, exact=False):
    try:
        return _ref_equal(a, b, delta, exact)
    except Exception:
        return False          # an equality that cannot be evaluated does not hold


def _ref_equal(a, b, delta=0.001, exact=False):
    """eq_spec typed from the statement: symmetric; tolerance when either is a float and both are numbers;
    normalised strings unless exact; element-wise for list/tuple/set/dict"""
    num = (int, float)
    if isinstance(a, bool) and isinstance(b, bool):
        return a == b
    # (a bool next to a number is the number 0 or 1: the tolerance applies to it like to any int)
    if isinstance(a, num) and isinstance(b, num):
        if isinstance(a, float) or isinstance(b, float):
            if a == b:
                return True         # equal numbers are equal whatever the tolerance (inf - inf is nan)
            try:
                return abs(a - b) < delta
            except OverflowError:
                return False
        return a == b
    if isinstance(a, str) and isinstance(b, str):
        if exact:
            return a == b
        norm = lambda s: ''.join(ch for ch in s.lower() if ch.isalnum() or ch.isspace()).split()
        return norm(a) == norm(b)
    if isinstance(a, (list, tuple)) and isinstance(b, (list, tuple)) and type(a) is type(b):
        return len(a) == len(b) and all(ref_equal(x, y, delta, exact) for x, y in zip(a, b))
    if isinstance(a, dict) and isinstance(b, dict):
        return set(a) == set(b) and all(ref_equal(a[k], b[k], delta, exact) for k in a)
    if isinstance(a, (set, frozenset)) and isinstance(b, (set, frozenset)):
        return a == b
    try:
        return a == b
    except Exception:
        return False


_SB = {}


def proxy_of(value):
    """a real SandboxResult: the value as returned by evaluating an expression in a real Sandbox"""
    from pedal.core.report import Report
    from pedal.core.submission import Submission
    from pedal.sandbox.sandbox import Sandbox
    if 'sb' not in _SB:
        report = Report()
        report.contextualize(Submission(files={'answer.py': 'pass'}, main_file='answer.py', main_code='pass'))
        _SB['sb'] = Sandbox(report=report)
    sb = _SB['sb']
    if isinstance(value, Money):
        sb.run("class Money:\n    def __init__(self, amount):\n        self.amount = amount\n    def __eq__(self, o):\n        return self.amount == o.amount\n    def __lt__(self, o):\n        return self.amount < o.amount\n    def __le__(self, o):\n        return self.amount <= o.amount\n    def __gt__(self, o):\n        return self.amount > o.amount\n    def __ge__(self, o):\n        return self.amount >= o.amount\n    def __contains__(self, i):\n        return i.amount == self.amount\n    def __hash__(self):\n        return hash(self.amount)\n", filename='answer.py')
    expr = "float('nan')" if isinstance(value, float) and value != value else (
        "float('inf')" if isinstance(value, float) and value == float('inf') else repr(value))
    res = sb.evaluate(expr)
    return res


def failed_call(strict=False):
    """what call() hands back when the student's function raises (strict: an exception class that refuses attributes)"""
    proxy_of(1)
    sb = _SB['sb']
    if strict:
        sb.run("class Strict(Exception):\n    def __setattr__(self, k, v):\n        raise TypeError('frozen')\n"
               "def boom():\n    raise Strict('nope')\n", filename='answer.py')
    else:
        sb.run("def boom():\n    return 1/0\n", filename='answer.py')
    return sb.call('boom')


def run_assert(name, args, wrap):
    from pedal.core.report import Report
    from pedal.assertions import runtime as rt
    from pedal.sandbox.result import SandboxResult
    from pedal.core.report import MAIN_REPORT
    from pedal.core.commands import clear_report
    clear_report()
    wrapped = [proxy_of(a) if w else a for a, w in zip(args, wrap)]
    fn = getattr(rt, name)
    try:
        fb = fn(*wrapped)
        return ('failing' if fb else 'silent'), None
    except Exception as e:
        return 'raised', e


def bounded(arg):
    quick = arg.get('tier') == 'quick'
    R, U = relations()
    ops = operands()
    failures, samples = [], []
    evaluations = 0
    distinct = set()
    wraps2 = [(False, False), (True, False), (False, True), (True, True)]

    def record(kind, name, desc, expect, got, extra=''):
        canon = '%s: %s' % (name, kind)
        failures.append({'id': 'outcome', 'canon': canon, 'detail': '%s -> %s, expected %s %s' % (desc, got, expect, extra)})
    pairs = list(itertools.product(ops, ops))
    if quick:
        pairs = [p for i, p in enumerate(pairs) if i % 2 == 0 or p[0][0] in ('nan', 'set', 'none') or p[1][0] in ('nan', 'set2', 'none', 'str')
                 or (p[0][0].startswith(('dict_', 'set_')) and p[1][0].startswith(('dict_', 'set_')))]
    for (na, a), (nb, b) in pairs:
        for name, (rel, neg) in R.items():
            if name.startswith('assert_length') and not isinstance(b, int):
                continue
            h, evaluable = holds(lambda: rel(a, b))
            res = {}
            for wrap in wraps2:
                if name in ('assert_is', 'assert_is_not') and wrap != (False, False):
                    continue
                got, exc = run_assert(name, (a, b), wrap)
                res[wrap] = got
                evaluations += 1
                distinct.add((name, na, nb, wrap))
                expect = 'silent' if h else 'failing'
                if got != expect:
                    kind = 'passes although the relation does not hold' if got == 'silent' else (
                        'raises instead of failing' if got == 'raised' else 'fails although the relation holds')
                    if not evaluable:
                        kind += ' (relation cannot be evaluated)'
                    elif 'nan' in (na, nb) or (isinstance(a, (set, frozenset)) and isinstance(b, (set, frozenset))):
                        kind += ' (partial order / NaN)'
                    if wrap != (False, False):
                        kind += ' [proxied operand]'
                    record(kind, name, '%s(%s, %s) wrap=%s' % (name, na, nb, wrap), expect, got, repr(exc) if exc else '')
            if neg and evaluable and (False, False) in res:
                got2, _ = run_assert(neg, (a, b), (False, False))
                evaluations += 1
                if res[(False, False)] == got2 and got2 in ('silent', 'failing'):
                    record('agrees with its negation', name, '%s/%s(%s, %s)' % (name, neg, na, nb), 'opposite outcomes', got2)
        # equality
        for exact in (False,):
            want = ref_equal(a, b)
            want_sym = ref_equal(b, a)
            eq_evaluable = holds(lambda: a == b)[1] and holds(lambda: b == a)[1]
            if isinstance(a, (int, float)) and isinstance(b, (int, float)):
                eq_evaluable = eq_evaluable and holds(lambda: abs(a - b) < 0.001)[1]
            for wrap in wraps2:
                got, exc = run_assert('assert_equal', (a, b), wrap)
                gotn, _ = run_assert('assert_not_equal', (a, b), wrap)
                evaluations += 2
                distinct.add(('assert_equal', na, nb, wrap))
                expect = 'silent' if want else 'failing'
                if got != expect:
                    kind = 'passes although the values differ' if got == 'silent' else (
                        'raises instead of failing' if got == 'raised' else 'fails although the values are equal')
                    if isinstance(a, float) != isinstance(b, float) and isinstance(a, (int, float)) and isinstance(b, (int, float)):
                        kind += ' (tolerance depends on argument order)'
                    if wrap != (False, False):
                        kind += ' [proxied operand]'
                    record(kind, 'assert_equal', 'assert_equal(%s, %s) wrap=%s' % (na, nb, wrap), expect, got)
                if eq_evaluable and got in ('silent', 'failing') and gotn == got:
                    record('agrees with its negation', 'assert_equal', 'assert_equal/assert_not_equal(%s, %s) wrap=%s' % (na, nb, wrap),
                           'opposite outcomes', got)
            g1, _ = run_assert('assert_equal', (a, b), (False, False))
            g2, _ = run_assert('assert_equal', (b, a), (False, False))
            if g1 != g2:
                record('depends on argument order', 'assert_equal', 'assert_equal(%s, %s) vs swapped' % (na, nb), g1, g2)
    for (na, a) in ops:
        for name, (rel, neg) in U.items():
            h, evaluable = holds(lambda: rel(a))
            for wrap in ((False,), (True,)):
                got, exc = run_assert(name, (a,), wrap)
                evaluations += 1
                distinct.add((name, na, wrap))
                expect = 'silent' if h else 'failing'
                if got != expect:
                    record('wrong outcome' + (' [proxied operand]' if wrap[0] else ''), name, '%s(%s) wrap=%s' % (name, na, wrap), expect, got,
                           repr(exc) if exc else '')
        # instance checks
        for cls in (int, float, str, list, tuple, dict, bool, type(None)):
            h = isinstance(a, cls)
            for nm, exp in (('assert_is_instance', h), ('assert_not_is_instance', not h)):
                for wrap in ((False, False), (True, False)):
                    got, exc = run_assert(nm, (a, cls), wrap)
                    evaluations += 1
                    distinct.add((nm, na, cls.__name__, wrap))
                    expect = 'silent' if exp else 'failing'
                    if got != expect:
                        kind = 'passes although isinstance is False' if got == 'silent' else 'fails although isinstance is True'
                        if {type(a), cls} == {int, float} or (type(a) is bool and cls in (int, float)):
                            kind += ' (int/float widened)'
                        record(kind, nm, '%s(%s, %s) wrap=%s' % (nm, na, cls.__name__, wrap), expect, got, repr(exc) if exc else '')
    # error operands
    for name in list(R) + ['assert_equal', 'assert_not_equal']:
        if name.startswith('assert_length') or name in ('assert_is', 'assert_is_not'):
            continue
        for strict in (False, True):
            got, exc = run_assert(name, (failed_call(strict), 5), (False, False))
            evaluations += 1
            if got != 'failing':
                record('error operand does not count as failing', name, '%s(<exception%s>, 5)' % (
                    name, ' of a class refusing attributes' if strict else ''), 'failing', got, repr(exc) if exc else '')
    # regular expressions: the pattern may be the proxied result of student code as well
    import re as _re
    for pattern in ('a+', '^c', 'x$', '[0-9]+'):
        for text in ('caat', 'xyz', 'b12x', ''):
            found = _re.search(pattern, text) is not None
            for wrap in wraps2:
                outcomes = []
                for fn_name in ('assert_regex', 'assert_not_regex'):
                    got, exc = run_assert(fn_name, (pattern, text), wrap)
                    outcomes.append(got)
                    evaluations += 1
                want = ['silent', 'failing'] if found else ['failing', 'silent']
                if outcomes != want:
                    record('regex verdict differs from re.search' + (' [proxied operand]' if wrap != (False, False) else ''),
                           'assert_regex', 'pattern %r text %r wrap %r' % (pattern, text, wrap), want, outcomes)
    # a pattern that is not a regular expression: the relation cannot be evaluated, so neither assertion may pass - or raise
    for pattern in ('(', '[a-', '*a'):
        for wrap in wraps2:
            outcomes = [run_assert(fn_name, (pattern, 'abc'), wrap)[0] for fn_name in ('assert_regex', 'assert_not_regex')]
            evaluations += 2
            if outcomes != ['failing', 'failing']:
                record('invalid pattern does not count as failing' + (' [proxied operand]' if wrap != (False, False) else ''),
                       'assert_regex', 'pattern %r text %r wrap %r' % (pattern, 'abc', wrap), ['failing', 'failing'], outcomes)
    # output containment: exact, or "only lowercased" as documented - and the negated check is its complement
    from pedal.core.commands import contextualize_report as _ctx
    from pedal.sandbox.commands import run as _run, get_sandbox as _get_sandbox, clear_sandbox as _clear_sb
    from pedal.assertions import runtime as _rto
    for printed in ("Goethestra\u00dfe 12", "Hello World", "\u03a3\u038a\u03a3\u03a5\u03a6\u039f\u03a3", "abc"):
        for needle in ("GOETHESTRASSE", "goethestra\u00dfe", "hello", "WORLD", "\u03c3\u03af\u03c3\u03c5\u03c6\u03bf\u03c3", "xyz", "12"):
            for exact in (False, True):
                holds_ = (needle in printed + "\n") if exact else (needle.lower() in (printed + "\n").lower())
                outcomes = []
                for fn_name in ('assert_output_contains', 'assert_not_output_contains'):
                    from pedal.core.commands import clear_report as _cr
                    _cr()
                    _ctx("print(%r)" % printed)
                    _clear_sb()
                    student = _run()
                    evaluations += 1
                    try:
                        outcomes.append('failing' if getattr(_rto, fn_name)(student, needle, exact_strings=exact) else 'silent')
                    except Exception as e:
                        outcomes.append('raised %r' % e)
                want = ['silent', 'failing'] if holds_ else ['failing', 'silent']
                if outcomes != want:
                    record('output containment disagrees with `in` on the %s text' % ('exact' if exact else 'lowercased'),
                           'assert_output_contains', 'printed %r, needle %r, exact_strings=%r' % (printed, needle, exact), want, outcomes)
    # output regex: re.search on what was printed, and the negated check is its complement
    import re as _re2
    for program, printed in (("print('Total: 12')\nprint('Average: 4.0')\nprint('done')", "Total: 12\nAverage: 4.0\ndone\n"),
                             ("print('abc')", "abc\n")):
        for pattern in ('^Average', '12$', '^done$', 'Total', '^Total', 'xyz', 'a.c', '4\\.0'):
            found = _re2.search(pattern, printed) is not None
            outcomes = []
            for fn_name in ('assert_output_regex', 'assert_not_output_regex'):
                from pedal.core.commands import clear_report as _cr2
                _cr2()
                _ctx(program)
                _clear_sb()
                student = _run()
                evaluations += 1
                try:
                    outcomes.append('failing' if getattr(_rto, fn_name)(pattern, student) else 'silent')
                except Exception as e:
                    outcomes.append('raised %r' % e)
            want = ['silent', 'failing'] if found else ['failing', 'silent']
            if outcomes[0] == outcomes[1] or (outcomes != want and (printed.rstrip('\n'), pattern) not in OUTPUT_TEXT_DEPENDENT):
                record('output regex disagrees with re.search or with its negation', 'assert_output_regex',
                       'printed %r, pattern %r' % (printed, pattern), want, outcomes)
    # the documented meaning of delta=None is the default tolerance
    from pedal.assertions import runtime as _rt
    from pedal.core.commands import clear_report as _clear
    for a_, b_, want_equal in ((1.0, 1.0, True), (3, 3.0004, True), (3, 3.5, False)):
        outcomes = []
        for fn_name in ('assert_equal', 'assert_not_equal'):
            _clear()
            evaluations += 1
            try:
                outcomes.append('failing' if getattr(_rt, fn_name)(a_, b_, delta=None) else 'silent')
            except Exception as e:
                outcomes.append('raised %r' % e)
        want = ['silent', 'failing'] if want_equal else ['failing', 'silent']
        if outcomes != want:
            record('delta=None is not the default tolerance', 'assert_equal', 'assert_equal/assert_not_equal(%r, %r, delta=None)' % (a_, b_), want, outcomes)
    samples = [{'assertion': 'assert_less', 'left': 'nan', 'right': 3, 'wrap': 'raw/raw'},
               {'assertion': 'assert_equal', 'left': 3, 'right': 3.0005, 'wrap': 'proxy/raw'}]
    return {'name': 'B-ops(assertions)', 'bound': '%d assertions x %d operand pairs (%d operand values incl. NaN, sets, nested, '
            'near-tolerance floats, strings differing by case/punctuation) x 4 wrappings; unary and instance assertions x '
            'values x 2 wrappings; error operands' % (len(R) + 2, len(pairs), len(ops)),
            'evaluations': evaluations, 'distinct_nontrivial': len(distinct),
            'rule': 'distinct = (assertion, operand names, wrapping)', 'samples': samples, 'failures': failures}


# patterns whose verdict depends on whether the trailing newline of the output is kept: either reading is accepted
OUTPUT_TEXT_DEPENDENT = set()


def ground(arg):
    return []


def replay(case):
    r = bounded({'tier': 'quick'})
    for f in r['failures']:
        return {'confirmed': True, 'canon': f['canon'], 'input': f['detail'], 'observed': f['detail']}
    return {'confirmed': False}
