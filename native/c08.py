"""C08 native side: operator tables against CPython's own ast (ground, exhaustive), node
finders against ast.walk (bounded), replay of _check_usage witnesses."""
import ast
import itertools
import random


def _op_class(expr, family):
    tree = ast.parse(expr, mode='eval').body
    if family == 'compare':
        return type(tree.ops[0]).__name__
    if family == 'bool':
        return type(tree.op).__name__
    if family == 'bin':
        return type(tree.op).__name__
    if family == 'unary':
        return type(tree.op).__name__


# the operator symbols of each family, typed from the Python language reference (not from pedal)
COMPARE = ["==", "!=", "<", "<=", ">", ">=", "is", "is not", "in", "not in"]
BOOL = ["and", "or"]
BIN = ["+", "-", "*", "/", "//", "%", "**", ">>", "<<", "|", "^", "&", "@"]
UNARY = ["not", "~"]


def ground(arg):
    from pedal.utilities import operators as ops
    out = []
    fams = (('compare', COMPARE, ops.COMPARE_OP_NAMES, 'a %s b'), ('bool', BOOL, ops.BOOL_OP_NAMES, 'a %s b'),
            ('bin', BIN, ops.BIN_OP_NAMES, 'a %s b'), ('unary', UNARY, ops.UNARY_OP_NAMES, '%s a'))
    for fam, symbols, table, fmt in fams:
        for sym in symbols:
            want = _op_class(fmt % sym, fam)
            got = table.get(sym)
            out.append({'id': 'table[%s %r]' % (fam, sym), 'ok': got == want,
                        'detail': 'pedal maps %r to %r; CPython parses it as ast.%s' % (sym, got, want),
                        'witness': {'family': fam, 'symbol': sym}})
        extra = sorted(set(table) - set(symbols))
        out.append({'id': 'table[%s].no_unknown_symbols' % fam, 'ok': not extra,
                    'detail': 'symbols not in the language: %r' % extra, 'witness': {'family': fam}})
    return out


# ---------------------------------------------------------------------------------------------
# bounded stand-in B-findall: generated programs, finders vs ast.walk

STMTS = [
    "x = {e}", "print({e})", "if {e}:\n    y = {e}\nelse:\n    y = {e}", "for i in range({e}):\n    total = total + {e}",
    "while {e}:\n    x = x - 1", "def f(a, b):\n    return {e}", "import math", "from os import path", "import json",
    "result = f({e}, {e})", "data.append({e})", "z = obj.method({e})", "w = [{e}, {e}]", "d = {{'k': {e}}}",
    "t = not ({e})", "u = ~({e})", "v = -({e})",
]
EXPRS = ["1", "2.5", "'s'", "True", "None", "x", "a + b", "a - 1", "a * b", "a / 2", "a // 2", "a % 2", "a ** 2",
         "a >> 1", "a << 1", "a | b", "a ^ b", "a & b", "a @ b", "a < b", "a <= b", "a > b", "a >= b", "a == b",
         "a != b", "a is b", "a is not b", "a in b", "a not in b", "a and b", "a or b", "not a", "~a", "len(x)",
         "sum(x)", "x.count(1)", "f(g(1))", "a < b < c", "(a + b) * (a + 1)", "max(1, 2) + max(3, 4)", "[1, 2]",
         "{'a': 1}", "1 + 2 + 3", "a <= b >= c", "print", "0", "False", "'t' + 's'"]


def programs(n, seed):
    rnd = random.Random(seed)
    for _ in range(n):
        k = rnd.randint(1, 6)
        lines = []
        for _ in range(k):
            s = rnd.choice(STMTS)
            while '{e}' in s:
                s = s.replace('{e}', rnd.choice(EXPRS), 1)
            lines.append(s)
        yield "\n".join(lines) + "\n"


def _walk_ops(tree, family, cls_name):
    n = 0
    nodes = []
    for node in ast.walk(tree):
        if family == 'compare' and isinstance(node, ast.Compare):
            for op in node.ops:
                if type(op).__name__ == cls_name:
                    nodes.append(node)
        elif family == 'bool' and isinstance(node, ast.BoolOp) and type(node.op).__name__ == cls_name:
            nodes.append(node)
        elif family == 'bin' and isinstance(node, ast.BinOp) and type(node.op).__name__ == cls_name:
            nodes.append(node)
        elif family == 'unary' and isinstance(node, ast.UnaryOp) and type(node.op).__name__ == cls_name:
            nodes.append(node)
    return nodes


def bounded(arg):
    from pedal.core.report import MAIN_REPORT
    from pedal.core.commands import clear_report, contextualize_report
    from pedal.cait.cait_api import parse_program
    from pedal.cait.find_node import find_operation, find_function_calls
    from pedal.assertions.static import (ensure_operation, prevent_operation, ensure_function_call,
                                         prevent_function_call, ensure_ast, prevent_ast, ensure_import,
                                         prevent_import, ensure_literal_type, prevent_literal_type,
                                         ensure_literal, prevent_literal)
    n = 60 if arg.get('tier') == 'quick' else 600
    seed = arg.get('seed', 0)
    evaluations = 0
    distinct = set()
    failures = []
    samples = []
    fams = (('compare', COMPARE, 'a %s b'), ('bool', BOOL, 'a %s b'), ('bin', BIN, 'a %s b'), ('unary', UNARY, '%s a'))
    for prog in programs(n, seed):
        try:
            tree = ast.parse(prog)
        except SyntaxError:
            continue            # the random generator can put a unary `not` where Python wants parentheses
        clear_report()
        contextualize_report(prog)
        root = parse_program()
        if len(samples) < 3:
            samples.append(prog)
        # operators
        for fam, symbols, fmt in fams:
            for sym in symbols:
                want_nodes = _walk_ops(tree, fam, _op_class(fmt % sym, fam))
                got = find_operation(sym, root=root)
                evaluations += 1
                if want_nodes:
                    distinct.add(('op', sym, len(want_nodes) > 1))
                ok = sorted((g.lineno, g.col_offset) for g in got) == sorted((w.lineno, w.col_offset) for w in want_nodes)
                if not ok:
                    failures.append({'id': 'find_operation', 'program': prog, 'symbol': sym,
                                     'want': len(want_nodes), 'got': len(got)})
                cnt = len(want_nodes)
                for thr in (0, 1, 2, cnt, cnt + 1):
                    e = ensure_operation(sym, at_least=thr, root=root)
                    p = prevent_operation(sym, at_most=thr, root=root)
                    evaluations += 2
                    if bool(e) != (cnt < thr):
                        failures.append({'id': 'ensure_operation', 'program': prog, 'symbol': sym, 'at_least': thr,
                                         'count': cnt, 'fired': bool(e)})
                    if bool(p) != (cnt > thr):
                        failures.append({'id': 'prevent_operation', 'program': prog, 'symbol': sym, 'at_most': thr,
                                         'count': cnt, 'fired': bool(p)})
                    if bool(p) and cnt and p.location.line not in [w.lineno for w in want_nodes]:
                        failures.append({'id': 'prevent_operation.line', 'program': prog, 'symbol': sym,
                                         'line': p.location.line})
        # calls
        for name in ('print', 'len', 'f', 'g', 'max', 'append', 'count', 'method', 'sum', 'range', 'nothing'):
            want = [nd for nd in ast.walk(tree) if isinstance(nd, ast.Call) and (
                (isinstance(nd.func, ast.Attribute) and nd.func.attr == name) or
                (isinstance(nd.func, ast.Name) and nd.func.id == name))]
            got = find_function_calls(name, root=root)
            evaluations += 1
            if want:
                distinct.add(('call', name, len(want) > 1))
            if sorted((g.lineno, g.col_offset) for g in got) != sorted((w.lineno, w.col_offset) for w in want):
                failures.append({'id': 'find_function_calls', 'program': prog, 'name': name,
                                 'want': len(want), 'got': len(got)})
            cnt = len(want)
            for thr in (0, 1, cnt, cnt + 1):
                e = ensure_function_call(name, at_least=thr, root=root)
                p = prevent_function_call(name, at_most=thr, root=root)
                evaluations += 2
                if bool(e) != (cnt < thr):
                    failures.append({'id': 'ensure_function_call', 'program': prog, 'name': name, 'at_least': thr,
                                     'count': cnt, 'fired': bool(e)})
                if bool(p) != (cnt > thr):
                    failures.append({'id': 'prevent_function_call', 'program': prog, 'name': name, 'at_most': thr,
                                     'count': cnt, 'fired': bool(p)})
        # node kinds
        for kind in ('For', 'While', 'If', 'Assign', 'FunctionDef', 'Call', 'BinOp', 'Compare', 'Import', 'Return',
                     'List', 'Dict', 'BoolOp', 'UnaryOp', 'ImportFrom', 'Name', 'Attribute'):
            want = [nd for nd in ast.walk(tree) if type(nd).__name__ == kind]
            got = root.find_all(kind)
            evaluations += 1
            if want:
                distinct.add(('kind', kind, len(want) > 1))
            if len(got) != len(want):
                failures.append({'id': 'find_all', 'program': prog, 'kind': kind, 'want': len(want), 'got': len(got)})
            cnt = len(want)
            for thr in (0, 1, cnt + 1):
                e = ensure_ast(kind, at_least=thr, root=root)
                p = prevent_ast(kind, at_most=thr, root=root)
                evaluations += 2
                if bool(e) != (cnt < thr):
                    failures.append({'id': 'ensure_ast', 'program': prog, 'kind': kind, 'at_least': thr, 'count': cnt})
                if bool(p) != (cnt > thr):
                    failures.append({'id': 'prevent_ast', 'program': prog, 'kind': kind, 'at_most': thr, 'count': cnt})
        # imports
        for mod in ('math', 'os', 'json', 'sys'):
            want = any((isinstance(nd, ast.Import) and any(a.name == mod for a in nd.names)) or
                       (isinstance(nd, ast.ImportFrom) and nd.module == mod) for nd in ast.walk(tree))
            evaluations += 2
            if bool(ensure_import(mod, root=root)) != (not want):
                failures.append({'id': 'ensure_import', 'program': prog, 'module': mod, 'present': want})
            if bool(prevent_import(mod, root=root)) != want:
                failures.append({'id': 'prevent_import', 'program': prog, 'module': mod, 'present': want})
        # literal types and literal values
        for ty in (int, float, str, bool, list, dict):
            def is_lit(nd):
                if ty in (list, dict):
                    return isinstance(nd, ast.List if ty is list else ast.Dict)
                return isinstance(nd, ast.Constant) and type(nd.value) is ty
            cnt = sum(1 for nd in ast.walk(tree) if is_lit(nd))
            if cnt:
                distinct.add(('littype', ty.__name__, cnt > 1))
            for thr in (0, 1, cnt + 1):
                evaluations += 2
                e = ensure_literal_type(ty, at_least=thr, root=root)
                p = prevent_literal_type(ty, at_most=thr, root=root)
                if bool(e) != (cnt < thr):
                    failures.append({'id': 'ensure_literal_type', 'program': prog, 'type': ty.__name__,
                                     'at_least': thr, 'count': cnt})
                if bool(p) != (cnt > thr):
                    failures.append({'id': 'prevent_literal_type', 'program': prog, 'type': ty.__name__,
                                     'at_most': thr, 'count': cnt})
        for value in (1, 2.5, 's', True, 0, False, 2):
            cnt = sum(1 for nd in ast.walk(tree) if isinstance(nd, ast.Constant) and type(nd.value) is type(value)
                      and nd.value == value)
            if cnt:
                distinct.add(('lit', repr(value), cnt > 1))
            for thr in (0, 1, cnt + 1):
                evaluations += 2
                e = ensure_literal(value, at_least=thr, root=root)
                p = prevent_literal(value, at_most=thr, root=root)
                if bool(e) != (cnt < thr):
                    failures.append({'id': 'ensure_literal', 'program': prog, 'value': repr(value), 'at_least': thr,
                                     'count': cnt})
                if bool(p) != (cnt > thr):
                    failures.append({'id': 'prevent_literal', 'program': prog, 'value': repr(value), 'at_most': thr,
                                     'count': cnt})
        if len(failures) > 200:
            break
    # a question about explicitly given code is answered from THAT code, also after the submission has been verified
    from pedal.source import verify
    from pedal.cait.cait_api import find_asts
    plist = list(programs(12, seed + 1))
    for i, sub in enumerate(plist):
        try:
            ast.parse(sub)
        except SyntaxError:
            continue
        clear_report()
        contextualize_report(sub)
        verify()
        parse_program()
        for other in plist[:i] + plist[i + 1:][:3]:
            try:
                want = ast.parse(other)
            except SyntaxError:
                continue
            evaluations += 1
            got = parse_program(other)
            if ast.dump(got.astNode) != ast.dump(want):
                failures.append({'id': 'explicit_code', 'program': other, 'submission': sub,
                                 'detail': 'parse_program(code) returned the tree of another program'})
            n_calls = len([n for n in ast.walk(want) if isinstance(n, ast.Call)])
            if len(find_asts('Call', other)) != n_calls:
                failures.append({'id': 'explicit_code', 'program': other, 'submission': sub,
                                 'detail': 'find_asts("Call", code) found %d nodes, the code has %d' % (len(find_asts('Call', other)), n_calls)})
    clear_report()
    return {'name': 'B-findall', 'bound': '%d generated programs of <= 6 statements (seed %d); every documented operator '
            'symbol, 11 call names, 17 node kinds, 4 modules, 6 literal types, 7 literal values; thresholds '
            '0, 1, 2, count, count+1' % (n, seed),
            'evaluations': evaluations, 'distinct_nontrivial': len(distinct),
            'rule': 'distinct = (query kind, queried symbol/name, occurs more than once) over programs where the '
                    'queried thing occurs at least once',
            'samples': samples, 'failures': failures}


def replay(case):
    """re-run a _check_usage witness on the real classes"""
    from pedal.assertions.static import EnsureAssertionFeedback, PreventAssertionFeedback
    w = case.get('witness', {})
    uses = [object()] * int(w.get('uses', 0) or 0)
    if 'Ensure' in case['target']:
        obj = EnsureAssertionFeedback.__new__(EnsureAssertionFeedback)
        obj.fields = {'at_least': w.get('at_least', 1), 'capacity': ''}
        fired = bool(EnsureAssertionFeedback._check_usage(obj, 'use_count', uses))
        want = len(uses) < w.get('at_least', 1)
    else:
        obj = PreventAssertionFeedback.__new__(PreventAssertionFeedback)
        obj.fields = {'at_most': w.get('at_most', 0), 'capacity': ''}
        fired = bool(PreventAssertionFeedback._check_usage(obj, 'use_count', uses))
        want = len(uses) > w.get('at_most', 0)
    return {'confirmed': fired != want or obj.fields.get('use_count') != len(uses),
            'input': {'fields': {k: v for k, v in obj.fields.items()}, 'uses': len(uses)},
            'observed': {'fired': fired, 'expected_fired': want, 'use_count': obj.fields.get('use_count')}}
