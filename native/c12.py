"""C12 native side: bounded stand-in B-verify - source strings (valid programs, single/double
character insertions and deletions, control characters, NUL, CR, tabs, form feed, non-ASCII
identifiers, lone surrogates, very deep nesting, empty and whitespace-only text) through the real
verify(), compared with what CPython's own parser does with the same text."""
import ast
import random

BASE = [
    "x = 1\n", "def f(a, b):\n    return a + b\nprint(f(1, 2))\n", "for i in range(3):\n    if i:\n        print(i)\n",
    "class A:\n    def m(self):\n        return [1, 2, {'k': (3,)}]\n", "naïve = 'é'\nπ = 3\n", "s = '''multi\nline'''\n",
    "while True:\n    break\nelse:\n    pass\n", "x = (1 +\n     2)\n", "import os, sys\nfrom a import b as c\n",
]
SPECIAL = ["", " ", "\n\n", "\t", "   \n  \n", "x = 1\x00", "\x00", "x = '\ud800'", "x = 1\ry = 2\n", "x = 1\x0c\n",
           "if 1:\n\tx=1\n        y=2\n", "(" * 300 + ")" * 300, "+".join(["1"] * 20000), "-" * 20000 + "1",
           "x = 1\n  y = 2\n", "def f(:\n", "print 'a'\n", "x = = 1\n", "'unterminated\n", "x = [1, 2\n", "\x1a",
           "x = 1 # comment \x00 after", "é = 1\n", "a = 1;;\n", "\ufeffx = 1\n", "x = 1\\\n", "\\",
           "a = 1\rb = (\r", "if 1:\r\tx = 1\r        y = 2\r", "a = 1\r\rb = = 2\r", "ok = 1\r\nbad = (\r\n",
           "v = 1\rdef f(:\r    pass\r",
           # text that str.strip() calls blank but the parser rejects
           "\x1c", "\x1d", "\x1e", "\x1f", "\x85", "\xa0", " ", " ", "　", " \x1f \n", "\n\xa0\n",
           # lone-CR files with a syntax error spanning several lines, on and after line 1
           "x = (1,\r2\r3 4)", "a = 1\rx = (1,\r2\r3 4)\r", "a = 1\rb = 2\rx = [1,\r2\r3 4]", "ok = 1\rs = f(1,\r 2\r 3 4)\rz = 1\r",
           "a = 1\rx = (1,\r2\r3)\ry = = 1\r", "a = 1\rq = \"\"\"abc\rdef\r", "a = 1\rx = {1:\r2,\r3}\r!\r",
           # PEP 484 type comments are comments: accepted wherever a comment is, and absent from the tree
           "x = []  # type: list\n", "print('hi')  # type: str\n", "def f(a):\n    # type: (int) -> int\n    return a\n",
           "count = 0\ncount += 1  # type: int\n", "v = 5  # type: ignore\n", "xs = [1,  # type: int\n      2]\n",
           # an error that spans several lines (a forgotten comma), LF line ends
           "x = [1,\n 2\n 3]\n", "r = add(first\n second)\n", "a = 1\nx = (1,\n2\n3 4)\n",
           # characters splitlines() treats as line breaks but the parser does not, before an error
           "a = '\x0c'\nb = ' '\nc = (\n", "a = 1\x0c\nb = 2\x0b\nc = = 3\n", "s = '\x85'\ny = (1\n"]


def mutate(rnd, text):
    chars = "()[]{}:'\"\\\n\t =,+x1#\x0c\r\r\x1f\xa0\u2028"
    t = list(text)
    for _ in range(rnd.choice([1, 1, 2])):
        if t and rnd.random() < 0.5:
            del t[rnd.randrange(len(t))]
        else:
            t.insert(rnd.randrange(len(t) + 1), rnd.choice(chars))
    return ''.join(t)


def parser_outcome(text):
    try:
        return ('ok', ast.parse(text, 'answer.py'))
    except SyntaxError as e:
        return ('syntax', e)
    except (ValueError, RecursionError, MemoryError) as e:
        return ('rejected', e)


def check(text, offset=0):
    from pedal.core.report import Report
    from pedal.core.submission import Submission
    from pedal.source import verify
    report = Report()
    report.contextualize(Submission(files={'answer.py': text, 'picture.png': b'\x89PNG\x00\x01'}, main_file='answer.py', main_code=text))
    if offset:
        report.submission.set_line_offset(offset)
    kind, val = parser_outcome(text)
    fails = []
    try:
        result = verify(report=report)
    except BaseException as e:
        return [('never_raises', 'verify raised %s on %r (parser: %s)' % (type(e).__name__, text[:40], kind))]
    labels = [f.label for f in report.feedback]
    syn = [f for f in report.feedback if f.label in ('syntax_error', 'indentation_error')]
    if kind == 'ok':
        if syn:
            fails.append(('spurious_syntax_feedback', 'parser accepts %r but %r was attached' % (text[:40], labels)))
        tree = report['source']['ast']
        if tree is None or ast.dump(tree) != ast.dump(val):
            fails.append(('stored_tree', 'stored tree differs from ast.parse for %r' % text[:40]))
    else:
        if len(syn) != 1:
            fails.append(('missing_syntax_feedback', 'parser rejects %r (%s) but feedback labels are %r' % (
                text[:40], type(val).__name__, labels)))
        else:
            f = syn[0]
            if f.category != 'syntax':
                fails.append(('category', 'category %r' % f.category))
            if kind == 'syntax' and val.lineno is not None and f.location.line != val.lineno + offset:
                fails.append(('line', 'feedback line %r, parser line %r + offset %d for %r' % (
                    f.location.line, val.lineno, offset, text[:40])))
            want_label = 'indentation_error' if isinstance(val, IndentationError) else 'syntax_error'
            if f.label != want_label:
                fails.append(('label', 'label %r, expected %r' % (f.label, want_label)))
        if result is not False or report['source']['success'] is not False:
            fails.append(('success_flag', 'success not False for rejected source %r' % text[:40]))
    if text.strip() == '' and 'blank_source' not in labels:
        fails.append(('blank', 'blank source %r not reported as blank' % text))
    if text.strip() != '' and 'blank_source' in labels:
        fails.append(('blank', 'non-blank source reported blank'))
    return fails


def check_other_file(text):
    """verify(code, filename=...) for a file that is not the submission's main file"""
    from pedal.core.report import Report
    from pedal.core.submission import Submission
    from pedal.source import verify
    report = Report()
    report.contextualize(Submission(files={'answer.py': 'x = 1\ny = 2\nz = 3'}, main_file='answer.py', main_code='x = 1\ny = 2\nz = 3'))
    kind, val = parser_outcome(text)
    try:
        verify(text, filename='other.py', report=report)
    except BaseException as e:
        return [('never_raises', 'verify(code, filename="other.py") raised %s on %r (parser: %s)' % (type(e).__name__, text[:40], kind))]
    syn = [f for f in report.feedback if f.label in ('syntax_error', 'indentation_error')]
    if kind != 'ok' and len(syn) != 1:
        return [('missing_syntax_feedback', 'parser rejects %r given as other.py but feedback labels are %r' % (
            text[:40], [f.label for f in report.feedback]))]
    if kind == 'ok' and syn:
        return [('spurious_syntax_feedback', 'parser accepts %r given as other.py but a syntax error was attached' % text[:40])]
    return []


def bounded(arg):
    quick = arg.get('tier') == 'quick'
    rnd = random.Random(arg.get('seed', 0) * 13 + 1)
    texts = list(BASE) + list(SPECIAL)
    for _ in range(150 if quick else 3000):
        texts.append(mutate(rnd, rnd.choice(BASE)))
    failures, samples = [], []
    distinct = set()
    evaluations = 0
    for t in texts:
        for off in (0, 7):
            evaluations += 1
            kind, val = parser_outcome(t)
            distinct.add((kind, type(val).__name__ if kind != 'ok' else 'tree', off, t[:12]))
            for what, detail in check(t, off):
                canon = what
                if kind == 'rejected':
                    canon += ' (parser raised %s)' % type(val).__name__
                elif kind == 'syntax' and val.lineno is None:
                    canon += ' (SyntaxError without a line)'
                failures.append({'id': what, 'canon': canon, 'detail': detail, 'text': t[:200]})
    for t in list(SPECIAL) + list(BASE):
        evaluations += 1
        for what, detail in check_other_file(t):
            failures.append({'id': what, 'canon': what + ' (explicit other file)', 'detail': detail, 'text': t[:200]})
    # syntax errors inside an independent section carry whole-file line numbers
    from pedal.core.report import Report
    from pedal.core.submission import Submission
    from pedal.source.sections import separate_into_sections, next_section
    from pedal.source import verify
    for prologue in ("a = 0\n", "a = 0\x0c\nb = 1\n", "s = 'x\x0bz'\n\n", "", "# c\x1c\n# d\n"):
        for chunk in ("x = (\n", "print 'a'\n", "ok = 1\n  bad = 2\n", "fine = 1\n"):
            whole = prologue + "##### Part 1\n" + chunk
            evaluations += 1
            distinct.add(('section', prologue, chunk))
            report = Report()
            report.contextualize(Submission(files={'answer.py': whole}, main_file='answer.py', main_code=whole))
            try:
                separate_into_sections(independent=True, report=report)
                next_section(report=report)
                verify(report=report)
            except BaseException as e:
                failures.append({'id': 'never_raises', 'canon': 'never_raises (inside a section)',
                                 'detail': 'section scenario raised %r for %r' % (e, whole)})
                continue
            kind, val = parser_outcome(whole)
            syn = [f for f in report.feedback if f.label in ('syntax_error', 'indentation_error')]
            if kind == 'syntax' and (len(syn) != 1 or syn[0].location.line != val.lineno):
                failures.append({'id': 'line', 'canon': 'line (inside a section)',
                                 'detail': 'whole file %r: parser line %r, feedback %r' % (
                                     whole, val.lineno, [f.location.line for f in syn])})
            if kind == 'ok' and syn:
                failures.append({'id': 'spurious_syntax_feedback', 'canon': 'spurious_syntax_feedback (inside a section)',
                                 'detail': 'whole file %r parses but %r attached' % (whole, [f.label for f in syn])})
    # past the last section the whole file is the main code again: the parser's own line, not shifted
    for whole in ("import math\n##### Part 1\na = (1\n##### Part 2\nb = 2\nprint(b)\n", "x = 1\n##### Part 1\ny = = 2\n"):
        evaluations += 1
        distinct.add(('past_the_end', whole))
        report = Report()
        report.contextualize(Submission(files={'answer.py': whole}, main_file='answer.py', main_code=whole))
        try:
            separate_into_sections(independent=True, report=report)
            for _ in range(whole.count('##### Part') + 1):
                next_section(report=report)
            verify(report=report)
        except BaseException as e:
            failures.append({'id': 'never_raises', 'canon': 'never_raises (past the last section)',
                             'detail': 'scenario raised %r for %r' % (e, whole)})
            continue
        kind, val = parser_outcome(whole)
        syn = [f for f in report.feedback if f.label in ('syntax_error', 'indentation_error')]
        if report.submission.main_code == whole and kind == 'syntax' and (len(syn) != 1 or syn[0].location.line != val.lineno):
            failures.append({'id': 'line', 'canon': 'line (past the last section)',
                             'detail': 'whole file %r presented again: parser line %r, feedback %r' % (
                                 whole, val.lineno, [f.location.line for f in syn])})
    samples = [{'text': SPECIAL[5]}, {'text': BASE[1]}, {'text': texts[len(BASE) + len(SPECIAL)]}]
    return {'name': 'B-verify', 'bound': '%d source texts (%d valid programs, %d special texts, %d random 1-2 character '
            'mutations) x 2 line offsets' % (len(texts), len(BASE), len(SPECIAL), len(texts) - len(BASE) - len(SPECIAL)),
            'evaluations': evaluations, 'distinct_nontrivial': len(distinct),
            'rule': 'distinct = (parser outcome, exception class, offset, text prefix)', 'samples': samples,
            'failures': failures}


def ground(arg):
    return []


def replay(case):
    for t in SPECIAL + BASE:
        fails = check(t, 0)
        if fails:
            kind, val = parser_outcome(t)
            what, detail = fails[0]
            canon = what + (' (parser raised %s)' % type(val).__name__ if kind == 'rejected' else
                            ' (SyntaxError without a line)' if kind == 'syntax' and val.lineno is None else '')
            return {'confirmed': True, 'canon': canon, 'input': {'text': t[:200]}, 'observed': detail}
    return {'confirmed': False}
