"""C14 native side: bounded stand-in B-timeout-schedules.

Real threads, real sandbox.  For each slow/non-terminating student program and each forced ordering of
the waiting (grader) thread and the abandoned worker - orderings are forced through the guarded
synchronisation points pedal.sandbox.timeout._VERIF_SYNC (PEDAL_EDU_PEDAL_VERIF=1) - the observable
contract of C14 is checked: the call returns within a bounded delay of the limit, the sandbox's
exception is a TimeoutError, the report gained exactly one runtime feedback, and a later execution in
the same sandbox starts from a clean patch state, has its own output and result, and is not altered
once the abandoned thread has died.

Orderings (W = worker's SystemExit handler, G = grader's timeout handler, N = next execution):
  natural    : whatever the GIL does
  W<G        : the grader is held after terminate() until the worker has handled its SystemExit (or 1.5 s)
  G<W<N      : the worker is held at its SystemExit handler until the grader's handler has finished
  G<N<W      : the worker is held until the next execution has completed
  G<N|W      : the worker is released while the next execution is running (student code of N releases it)"""
import os
import sys
import threading
import time

PROGRAMS = {
    'busy_loop': "x = 0\nwhile True:\n    x += 1\n",
    'printing_loop': "while True:\n    print('a')\n",
    'swallowing_loop': "while True:\n    try:\n        while True:\n            pass\n    except BaseException:\n        pass\n",
    'blocked_on_lock': "import threading\nl = threading.Lock()\nl.acquire()\nl.acquire()\n",
    'exit_code_in_finally': "try:\n    while True:\n        pass\nfinally:\n    raise SystemExit(1)\n",
    'recursive_calls': "def f(n):\n    return 0 if n == 0 else 1 + f(n - 1)\nwhile True:\n    f(50)\n",
    # a bare `except:` swallows the request to stop once; the program then runs to its end (or fails, or prints) while
    # the grader has long moved on - the next execution waits for the abandoned worker to finish (see one())
    'swallow_then_finish': "try:\n    while True:\n        pass\nexcept BaseException:\n    pass\nn = 0\nwhile n < 4000000:\n    n += 1\n",
    'swallow_then_fail': "try:\n    while True:\n        pass\nexcept BaseException:\n    pass\nn = 0\nwhile n < 4000000:\n    n += 1\nraise ValueError('late')\n",
    'swallow_then_print': "try:\n    while True:\n        pass\nexcept BaseException:\n    pass\nn = 0\nwhile n < 4000000:\n    n += 1\nprint('late')\n",
}
# programs whose abandoned worker ends by itself while the next execution is still running
ENDS_DURING_NEXT = {'swallow_then_finish', 'swallow_then_fail', 'swallow_then_print'}
# programs that can never see the injected SystemExit: the worker thread stays alive for ever
NEVER_DIES = {'swallowing_loop', 'blocked_on_lock'}
SCHEDULES = ['natural', 'W<G', 'G<W<N', 'G<N<W', 'G<N|W']
LIMIT = 0.4
_SLEEP = time.sleep        # the real one: the sandbox patches time.sleep while student code runs
SLACK = 1.0


class Director:
    """installed as pedal.sandbox.timeout._VERIF_SYNC"""

    def __init__(self, schedule):
        self.schedule = schedule
        self.worker = None
        self.worker_at_handler = threading.Event()
        self.release_worker = threading.Event()
        self.grader_handler_entered = threading.Event()
        self.held = 0.0

    def __call__(self, point):
        if point == 'after_terminate':                      # grader thread, worker has been told to stop
            if self.schedule == 'W<G':
                t0 = time.time()
                w = self.worker
                if w is not None:
                    w.join(1.5)
                self.held += time.time() - t0
        elif point == 'timeout_handler':                    # grader thread enters its except TimeoutError
            self.grader_handler_entered.set()
        elif point == 'student_system_exit':                # worker thread enters its except SystemExit
            self.worker_at_handler.set()
            if self.schedule in ('G<W<N', 'G<N<W', 'G<N|W'):
                self.release_worker.wait(10)


def runtime_feedback(report):
    from pedal.core.feedback_category import FeedbackCategory
    return [f for f in report.feedback if getattr(f, 'category', None) == FeedbackCategory.RUNTIME]


def one(program, schedule):
    """-> list of (id, detail) violations"""
    import io
    from pedal.core.commands import clear_report, contextualize_report
    from pedal.core.report import MAIN_REPORT
    from pedal.sandbox.sandbox import Sandbox
    from pedal.sandbox import timeout as tmod
    code = PROGRAMS[program]
    bad = []
    clear_report()
    contextualize_report(code)
    sb = Sandbox()
    sb.threaded = True
    sb.allowed_time = LIMIT
    d = Director(schedule)
    tmod._VERIF_SYNC = d
    before_threads = set(threading.enumerate())
    real_stdout = sys.stdout
    capture = io.StringIO()
    sys.stdout = capture

    def find_worker():
        for t in threading.enumerate():
            if t not in before_threads and isinstance(t, tmod.InterruptableThread):
                return t
    # the worker does not exist before run(); the director looks it up lazily
    orig_start = tmod.InterruptableThread.start

    def start(self_):
        d.worker = self_
        return orig_start(self_)
    tmod.InterruptableThread.start = start
    try:
        t0 = time.time()
        try:
            sb.run()
            raised = None
        except BaseException as e:
            raised = e
        elapsed = time.time() - t0 - d.held
        if raised is not None:
            bad.append(('run_raises', 'run() raised %r' % raised))
        if elapsed > LIMIT + SLACK:
            bad.append(('late_return', 'run() returned %.2f s after a limit of %.2f s' % (elapsed, LIMIT)))
        if elapsed < LIMIT * 0.9:
            bad.append(('early_return', 'run() returned after %.2f s although the program never ends' % elapsed))
        if not isinstance(sb.exception, TimeoutError):
            bad.append(('exception_is_not_timeout', 'sandbox.exception is %r' % (sb.exception,)))
        if schedule == 'G<W<N':
            d.release_worker.set()
            if d.worker is not None and program not in NEVER_DIES:
                d.worker.join(2)
        n = len(runtime_feedback(MAIN_REPORT))
        if n != 1:
            bad.append(('runtime_feedback_count', '%d runtime feedbacks after the timed-out run: %r' % (
                n, [f.label for f in runtime_feedback(MAIN_REPORT)])))
        if len(sb._current_patches) != 0:
            bad.append(('patches_left', '%d patch groups still active before the next execution' % len(sb._current_patches)))
        # ---- the next execution in the same sandbox
        sb.threaded = False
        release = d.release_worker
        sb.data['__release'] = (lambda: (release.set(), _SLEEP(0.2))) if schedule == 'G<N|W' else (lambda: None)
        if program in ENDS_DURING_NEXT and d.worker is not None:
            worker = d.worker
            sb.data['__release'] = lambda: (release.set(), worker.join(5))
        out_before = list(sb.output)
        sb.run("print('second-1')\n__release()\nprint('second-2')\nmarker = 41 + 1\n", filename='instructor_next.py')
        if schedule == 'G<N<W':
            d.release_worker.set()
        if d.worker is not None and program not in NEVER_DIES:
            d.worker.join(2)
            if d.worker.is_alive():
                bad.append(('worker_survives', 'the abandoned worker is still alive 2 s after it was released'))
        time.sleep(0.05)
        new_out = sb.output[len(out_before):]
        if new_out != ['second-1', 'second-2']:
            bad.append(('next_output_altered', 'output of the next execution is %s (before it: %r)' % (repr(new_out)[:120], out_before[-3:])))
        if sb.exception is not None:
            bad.append(('next_exception_altered', 'after a clean next execution sandbox.exception is %r' % (sb.exception,)))
        if sb.data.get('marker') != 42:
            bad.append(('next_result_altered', 'variable of the next execution is %r' % (sb.data.get('marker'),)))
        n2 = len(runtime_feedback(MAIN_REPORT))
        if n2 != 1:
            bad.append(('runtime_feedback_count_later', '%d runtime feedbacks after the next execution: %r' % (
                n2, [f.label for f in runtime_feedback(MAIN_REPORT)])))
        if len(sb._current_patches) != 0:
            bad.append(('patches_left_later', '%d patch groups active after the next execution' % len(sb._current_patches)))
        leaked = capture.getvalue()
        if 'second' in leaked:
            bad.append(('next_output_on_real_stdout', 'the next execution printed to the real stdout: %r' % leaked[:80]))
    finally:
        d.release_worker.set()
        tmod.InterruptableThread.start = orig_start
        tmod._VERIF_SYNC = None
        sys.stdout = real_stdout
    return bad


def bounded(arg):
    os.environ['PEDAL_EDU_PEDAL_VERIF'] = '1'
    from pedal.sandbox import timeout as tmod
    failures = []
    evaluations = 0
    distinct = set()
    if not getattr(tmod, '_VERIF_ENABLED', False):
        failures.append({'id': 'hooks_missing', 'canon': 'hooks_missing',
                         'detail': 'pedal.sandbox.timeout has no enabled _VERIF_SYNC hook (PEDAL_EDU_PEDAL_VERIF=1)'})
    repeats = 1 if arg.get('tier') == 'quick' else 4
    # one fresh interpreter per (program, ordering): workers that never die (swallowed SystemExit, blocked on a lock)
    # would otherwise pile up and starve the later cases of the GIL
    import json
    import subprocess
    from concurrent.futures import ThreadPoolExecutor
    here = os.path.abspath(__file__)
    env = dict(os.environ, PEDAL_EDU_PEDAL_VERIF='1')

    def case(job):
        program, schedule = job
        try:
            p = subprocess.run([sys.executable, here, program, schedule], capture_output=True, text=True, env=env, timeout=25)
        except subprocess.TimeoutExpired:
            return job, [('harness_timeout', 'case did not finish within 25 s (limit 0.4 s)')]
        for line in p.stdout.splitlines():
            if line.startswith('RESULT'):
                return job, [tuple(x) for x in json.loads(line[6:])]
        return job, [('harness_error', (p.stderr or p.stdout)[-400:])]
    jobs = [(program, schedule) for _ in range(repeats) for program in PROGRAMS for schedule in SCHEDULES]
    with ThreadPoolExecutor(max_workers=4) as pool:
        for (program, schedule), bad in pool.map(case, jobs):
            evaluations += 1
            distinct.add((program, schedule))
            for what, detail in bad:
                # (the hook points are not reached by a program that swallows the interruption: one canon for all orderings)
                failures.append({'id': what, 'canon': ('%s in %s' % (what, program)) if program in ENDS_DURING_NEXT
                                 else '%s under %s in %s' % (what, schedule, program),
                                 'detail': '%s | program %s, ordering %s' % (detail, program, schedule)})
    return {'name': 'B-timeout-schedules', 'bound': '%d programs (busy loop, printing loop, loop swallowing BaseException, blocked on a '
            'lock, cleanup that turns the interruption into exit(1), deep recursion, three programs that swallow the interruption once and then finish / fail / print while the next execution runs) x %d forced orderings of the waiting thread and the abandoned worker at the hook points '
            '(natural, W<G, G<W<N, G<N<W, G<N|W), limit %.1f s, %d repetitions; real threads' % (
                len(PROGRAMS), len(SCHEDULES), LIMIT, repeats),
            'evaluations': evaluations, 'distinct_nontrivial': len(distinct), 'rule': 'distinct = (program, ordering)',
            'samples': [{'program': 'busy_loop', 'ordering': 'G<N|W'}, {'program': 'printing_loop', 'ordering': 'W<G'}],
            'failures': failures}


def ground(arg):
    return []


def replay(case):
    r = bounded({'tier': 'quick'})
    for f in r['failures']:
        return {'confirmed': True, 'canon': f['canon'], 'input': f['detail'], 'observed': f['detail']}
    return {'confirmed': False}


if __name__ == '__main__':
    import json
    os.environ['PEDAL_EDU_PEDAL_VERIF'] = '1'
    sys.path.insert(0, os.environ.get('PEDAL_REPO', '/repo'))
    try:
        out = one(sys.argv[1], sys.argv[2])
    except BaseException as e:          # noqa
        out = [('harness_error', repr(e))]
    real = sys.__stdout__
    real.write('RESULT' + json.dumps(out) + '\n')
    real.flush()
    os._exit(0)                          # immortal worker threads must not keep the process alive
