"""C17 native side: bounded stand-in B-sections on the real source tool, and replay.

Files are built from chunks and marker lines; every prefix of the operation sequence
separate -> next_section* -> stop is checked against the statement: chunks concatenate back to
the file, section k is the k-th chunk (or the prefix), past-the-end is a feedback, reported lines
are whole-file lines, the original text is restored."""
import itertools
import random
import re

CHUNKS = ["", "a = 0\n", "print(a)\nb = a + 1\n", "def f(x):\n    return x\n", "x = (\n", "print(undefined_name)\n",
          "1/0\n", "\n\n", "y = 1", "z = 1\x0c\nw = 2\n", "for q in 5:\n    pass\n",
          "n = 'count'\nvalues = [1, 2]\nsq = [n * n for n in values]\nprint(sq)\n"]
MARK = "##### Part %d\n"


def build(chunks):
    text = chunks[0]
    for k, c in enumerate(chunks[1:], 1):
        text += MARK % k + c
    return text


def fresh(text):
    from pedal.core.report import Report
    from pedal.core.submission import Submission
    report = Report()
    report.contextualize(Submission(files={'answer.py': text}, main_file='answer.py', main_code=text))
    return report


def expected_pieces(text):
    """[code0, marker1, code1, ...] by scanning lines: a marker is a whole line `##### Part <something>`;
    the marker piece is the line without its newline (what the documented pattern captures)"""
    pieces, spans = [], []
    pos = 0
    for line in text.split("\n"):
        if line.startswith("##### Part ") and len(line) > len("##### Part "):
            spans.append((pos, pos + len(line)))
        pos += len(line) + 1
    last = 0
    for a, b in spans:
        pieces.append(text[last:a])
        pieces.append(text[a:b])
        last = b
    pieces.append(text[last:])
    return pieces, spans


TIFA_COMPARED = [0]      # located TIFA issues compared so far: a selection that is always empty checks nothing


def check_file(chunks, independent, extra_calls, eol="\n"):
    from pedal.source.sections import separate_into_sections, next_section, stop_sections
    from pedal.source import verify
    text = build(chunks).replace("\n", eol)       # Windows line ends: the marker pattern's `.` takes the \r
    pieces, spans = expected_pieces(text)
    report = fresh(text)
    fails = []
    separate_into_sections(independent=independent, report=report)
    secs = report['source']['sections']
    if ''.join(secs) != text:
        fails.append(('lossless', 'pieces do not concatenate to the file'))
    if list(secs) != pieces:
        fails.append(('pieces', 'pieces %r, expected %r' % (secs, pieces)))
    if report.submission.main_code != pieces[0]:
        fails.append(('prologue', 'first section is not the text before the first marker'))
    k_total = len(spans)
    for k in range(1, k_total + 1 + extra_calls):
        before = len(report.feedback)
        try:
            next_section(report=report)
        except Exception as e:
            fails.append(('past_the_end' if k > k_total else 'next_section_raises',
                          'next_section call %d on a file with %d markers raised %s' % (k, k_total, type(e).__name__)))
            break
        labels = [f.label for f in report.feedback[before:]]
        if k <= k_total:
            got = report.submission.main_code
            chunk = pieces[2 * k]
            if independent:
                if got != chunk:
                    fails.append(('chunk', 'section %d is %r, expected %r' % (k, got, chunk)))
                off = report.submission.line_offsets.get(report.submission.main_file, 0)
                want_off = text[:spans[k - 1][1]].count("\n")
                if off != want_off:
                    fails.append(('offset', 'section %d offset %r, expected %r' % (k, off, want_off)))
                b2 = len(report.feedback)
                verify(report=report)
                for f in report.feedback[b2:]:
                    if f.label in ('syntax_error', 'indentation_error'):
                        import ast
                        try:
                            ast.parse(chunk)
                            fails.append(('syntax_line', 'syntax error reported for a chunk that parses'))
                        except SyntaxError as e:
                            if f.location.line != (e.lineno or 0) + want_off:
                                fails.append(('syntax_line', 'syntax error line %r, expected %r' % (
                                    f.location.line, e.lineno + want_off)))
            else:
                if got != ''.join(pieces[:2 * k + 1]):
                    fails.append(('cumulative', 'section %d is not the file up to and including the chunk' % k))
            if 'not_enough_sections' in labels:
                fails.append(('spurious_feedback', 'not_enough_sections although section %d exists' % k))
        else:
            if labels.count('not_enough_sections') != 1:
                fails.append(('past_the_end', 'next_section call %d on a file with %d markers: feedback %r' % (k, k_total, labels)))
            if report.submission.main_code == text and report.submission.line_offsets.get(report.submission.main_file, 0) != 0:
                fails.append(('offset_after_restore', 'past the last section the whole file is presented again, but its lines are '
                              'still shifted by %r' % report.submission.line_offsets.get(report.submission.main_file)))
    try:
        stop_sections(report=report)
        if report.submission.main_code != text:
            fails.append(('restore', 'main code after stop_sections is not the original text'))
        elif report.submission.line_offsets.get(report.submission.main_file, 0) != 0:
            fails.append(('offset_after_restore', 'after stop_sections the whole file is back, but its lines are still shifted by %r'
                          % report.submission.line_offsets.get(report.submission.main_file)))
    except Exception as e:
        fails.append(('restore', 'stop_sections raised %s' % type(e).__name__))
    # resolving right after separating (prologue active) must also restore the file
    from pedal.resolvers.simple import resolve
    report2 = fresh(text)
    separate_into_sections(independent=independent, report=report2)
    try:
        resolve(report=report2)     # a report of its own, not pedal's MAIN_REPORT
        if report2.submission.main_code != text:
            fails.append(('restore_on_resolve', 'main code after resolve(report=...) (prologue active) is not the original text'))
    except Exception as e:
        fails.append(('restore_on_resolve', 'resolve raised %s' % type(e).__name__))
    # TIFA issues inside an independent section carry whole-file lines
    if independent and k_total >= 1:
        from pedal.tifa import tifa_analysis
        report3 = fresh(text)
        separate_into_sections(independent=True, report=report3)
        for k in range(1, k_total + 1):
            next_section(report=report3)
            chunk = pieces[2 * k]
            import ast
            try:
                tree = ast.parse(chunk)
            except SyntaxError:
                continue
            off = text[:spans[k - 1][1]].count("\n")
            try:
                t_sec = tifa_analysis(report=report3)
            except Exception as e:
                fails.append(('tifa_raises', 'tifa_analysis raised %s' % type(e).__name__))
                continue
            chunk_lines = chunk.count("\n") + 1

            def located(analysis):
                # the issues of this analysis, whichever report their feedback objects registered with
                return sorted((label, issue.location.line) for label, issues in analysis.issues.items() for issue in issues
                              if getattr(issue, 'location', None) is not None
                              and getattr(issue.location, 'line', None) is not None)
            got = located(t_sec)
            # the same text analysed on its own (no sections, so no shifting) names the lines inside the chunk
            alone = fresh(chunk)
            try:
                want = [(label, line + off) for label, line in located(tifa_analysis(report=alone))]
                TIFA_COMPARED[0] += len(want)
                if got != want:
                    fails.append(('tifa_line', 'TIFA issues of section %d at %r; the chunk analysed alone, shifted by the %d '
                                  'lines before it, gives %r' % (k, got, off, want)))
            except Exception as e:
                pass
            for label, line in got:
                if not (off + 1 <= line <= off + chunk_lines):
                    fails.append(('tifa_line', 'TIFA issue %s at line %r, the section spans lines %d-%d' % (
                        label, line, off + 1, off + chunk_lines)))
    return fails


def runtime_lines():
    """a run-time error raised while a section is active - at the top level of the section under run(), or inside a
    student function invoked later with call() - is located at its whole-file line"""
    from pedal.source.sections import separate_into_sections, next_section
    from pedal.source import verify
    from pedal.sandbox.sandbox import Sandbox
    fails = []
    n = 0
    for pad1, pad2 in [(0, 0), (2, 0), (3, 4), (1, 7)]:
        lines = ['import math'] + ['# prologue %d' % i for i in range(pad1)]
        lines += ['##### Part 1'] + ['a%d = %d' % (i, i) for i in range(pad2)] + ['first = 1']
        lines += ['##### Part 2', 'def boom(x):', '    y = x + 1', '    return y / 0', 'value = 2']
        boom_line = len(lines) - 1                  # 1-based line of `return y / 0`
        lines += ['##### Part 3', 'z = 1', 'w = z / 0']
        top_line = len(lines)
        text = '\n'.join(lines) + '\n'
        report = fresh(text)
        separate_into_sections(independent=True, report=report)
        next_section(report=report)
        next_section(report=report)
        verify(report=report)
        sb = Sandbox(report=report)
        sb.run()
        n += 1
        before = len(report.feedback)
        sb.call('boom', 5)
        got = [f.location.line for f in report.feedback[before:] if f.category == 'runtime' and f.location is not None]
        if got != [boom_line]:
            fails.append(('runtime_line', 'error inside a student function reached through call(): located at %r, whole-file '
                          'line is %d (prologue %d, first section %d lines)' % (got, boom_line, pad1 + 1, pad2 + 1)))
        next_section(report=report)
        verify(report=report)
        before = len(report.feedback)
        sb.run()
        n += 1
        got = [f.location.line for f in report.feedback[before:] if f.category == 'runtime' and f.location is not None]
        if got != [top_line]:
            fails.append(('runtime_line', 'error at the top level of a section under run(): located at %r, whole-file line '
                          'is %d' % (got, top_line)))
    # a section that does not parse, executed without verify() first: the syntax error is located at its whole-file line
    text = 'a = 0\n##### Part 1\nb = 1\nc = 2\nsyntax error\n'
    report = fresh(text)
    separate_into_sections(independent=True, report=report)
    next_section(report=report)
    sb = Sandbox(report=report)
    sb.run()
    n += 1
    got = [f.location.line for f in report.feedback if f.category == 'runtime' and f.location is not None]
    if got != [5]:
        fails.append(('runtime_line', 'syntax error met by run() in a section: located at %r, whole-file line is 5' % (got,)))
    # an error that surfaces inside a library the student called is located at the student's line of the whole file
    for text, line in (('a = 0\n##### Part 1\nimport json\nx = 1\njson.loads("{bad")\n', 5),
                       ('import random\n##### Part 1\nimport random\ndef pick():\n    return random.choice([])\n\npick()\n', 5)):
        report = fresh(text)
        separate_into_sections(independent=True, report=report)
        next_section(report=report)
        sb = Sandbox(report=report)
        sb.run()
        n += 1
        got = [f.location.line for f in report.feedback if f.category == 'runtime' and f.location is not None]
        if got != [line]:
            fails.append(('runtime_line', 'error raised inside a library function called from a section: located at %r, the '
                          'innermost line of the student\'s file is %d' % (got, line)))
    # a function defined in an earlier independent section and called from a later one (the sandbox keeps its data)
    text = 'a = 0\n##### Part 1\ndef f():\n    return 1 / 0\nprint("A")\n##### Part 2\nx = 1\ny = 2\nf()\n'
    report = fresh(text)
    separate_into_sections(independent=True, report=report)
    next_section(report=report)
    sb = Sandbox(report=report)
    sb.run()
    next_section(report=report)
    before = len(report.feedback)
    sb.run()
    n += 1
    got = [f.location.line for f in report.feedback[before:] if f.category == 'runtime' and f.location is not None]
    if got != [4]:
        fails.append(('runtime_line_earlier_section', 'error inside a function that an earlier section defined, called from the '
                      'next section: located at %r, whole-file line is 4' % (got,)))
    return fails, n


def bounded(arg):
    quick = arg.get('tier') == 'quick'
    rnd = random.Random(arg.get('seed', 0) + 17)
    failures, samples = [], []
    distinct = set()
    evaluations = 0
    layouts = []
    for n in range(0, 3 if quick else 4):
        for combo in itertools.product(range(len(CHUNKS)), repeat=n + 1):
            layouts.append([CHUNKS[i] for i in combo])
    if quick:
        rnd.shuffle(layouts)
        layouts = layouts[:250]
    for chunks in layouts:
        for independent in (True, False):
            for extra in (1, 2):
                evaluations += 1
                distinct.add((len(chunks), independent, extra, tuple(c[:3] for c in chunks)))
                fails = check_file(chunks, independent, extra)
                if len(samples) < 2 and len(chunks) == 3:
                    samples.append({'file': build(chunks), 'independent': independent, 'calls': len(chunks) - 1 + extra})
                for what, detail in fails:
                    failures.append({'id': what, 'canon': what, 'detail': detail, 'file': build(chunks),
                                     'independent': independent})
    for chunks in layouts[::3]:
        evaluations += 1
        distinct.add((len(chunks), 'crlf', tuple(c[:3] for c in chunks)))
        for what, detail in check_file(chunks, True, 1, eol="\r\n"):
            failures.append({'id': what, 'canon': what + ' (CRLF file)', 'detail': detail,
                             'file': build(chunks).replace("\n", "\r\n"), 'independent': True})
    if TIFA_COMPARED[0] == 0:
        failures.append({'id': 'harness', 'canon': 'harness', 'detail': 'no located TIFA issue was compared in any layout: the '
                         'TIFA-line clause selected nothing'})
    try:
        rfails, rn = runtime_lines()
    except Exception as e:
        rfails, rn = [('runtime_line', 'harness: %r' % e)], 0
    evaluations += rn
    distinct |= set(('runtime', i) for i in range(rn))
    for what, detail in rfails:
        failures.append({'id': what, 'canon': what, 'detail': detail})
    return {'name': 'B-sections', 'bound': '8 run-time errors (top level under run(), student function under call()) in 4 sectioned files; %d file layouts of 0-%d marker lines over %d chunk texts (incl. empty, syntax error, '
            'no trailing newline), independent and cumulative, 1-2 calls past the end; every third layout again with CRLF line ends' % (len(layouts), 2 if quick else 3, len(CHUNKS)),
            'evaluations': evaluations, 'distinct_nontrivial': len(distinct),
            'rule': 'distinct = (number of chunks, mode, calls past the end, chunk texts); %d located TIFA issues compared' % TIFA_COMPARED[0], 'samples': samples,
            'failures': failures}


def ground(arg):
    import re as _re
    from pedal.source.sections import DEFAULT_SECTION_PATTERN
    groups = _re.compile(DEFAULT_SECTION_PATTERN).groups
    return [{'id': 'default_pattern_has_one_capturing_group', 'ok': groups == 1,
             'detail': 'pattern %r has %d capturing groups (re.split keeps the markers only with exactly one)' % (
                 DEFAULT_SECTION_PATTERN, groups), 'witness': {}}]


def replay(case):
    clause = case['clause']
    for n_markers in (0, 1, 2):
        for independent in (True, False):
            chunks = ["a = 0\n"] + ["b = %d\n" % k for k in range(n_markers)]
            fails = check_file(chunks, independent, 2)
            for what, detail in fails:
                if what in ('past_the_end', 'next_section_raises', 'chunk', 'cumulative', 'offset', 'restore'):
                    return {'confirmed': True, 'canon': 'next_section past the end' if what == 'past_the_end' else what,
                            'input': {'markers': n_markers, 'independent': independent, 'file': build(chunks)},
                            'observed': detail}
    return {'confirmed': False, 'note': 'sections behaved as specified on files with 0-2 markers'}
