"""C20 native side: bounded stand-in B-feedback (every feedback class shape x keyword
combination x condition outcome on a real Report), override/clear sequences, replay."""
import itertools
import random


def _classes():
    from pedal.core.feedback import Feedback, FeedbackResponse

    class Plain(Feedback):
        pass

    class WithTemplate(Feedback):
        message_template = "Value {x} and {name:name}"
        title = "Templated"

    class TrueCond(Feedback):
        def condition(self, *a, **k):
            return 1

    class FalseCond(Feedback):
        def condition(self, *a, **k):
            return []

    class RaisingCond(Feedback):
        def condition(self, *a, **k):
            raise ValueError("condition broke")

    class RaisingMessage(Feedback):
        def _get_message(self):
            raise KeyError("message broke")

    class ListCond(Feedback):
        def condition(self, *a, **k):
            return ['found']

    return [Feedback, FeedbackResponse, Plain, WithTemplate, TrueCond, FalseCond, RaisingCond, RaisingMessage, ListCond]


def one_case(cls, kw, parent_kind):
    from pedal.core.report import Report
    from pedal.core.feedback import Feedback
    report = Report()
    parent = None
    if parent_kind == 'int':
        parent = 3
    elif parent_kind == 'str':
        parent = 'group-a'
    elif parent_kind == 'feedback':
        parent = Feedback(report=report, label='parent', delay_condition=True)
    kw = dict(kw)
    if parent is not None:
        kw['parent'] = parent
    fails = []
    n_f, n_i = len(report.feedback), len(report.ignored_feedback)
    raised = None
    obj = None
    try:
        obj = cls(report=report, **kw)
    except Exception as e:
        raised = e
    in_f = [f for f in report.feedback[n_f:]]
    in_i = [f for f in report.ignored_feedback[n_i:]]
    name = cls.__name__
    have = set(kw.get('fields') or {}) | set(k for k in kw if k in ('x', 'name'))
    missing_field = (name == 'WithTemplate' and 'message' not in kw and 'message_template' not in kw
                     and not {'x', 'name'} <= have)
    if missing_field:
        return []            # a template naming a field that was not given raises by design
    expect_raise = name in ('RaisingCond',) or (name == 'RaisingMessage' and kw.get('activate', True))
    if kw.get('delay_condition'):
        if raised is not None or in_f or in_i:
            fails.append('delayed feedback touched the report or raised')
        return fails
    if expect_raise:
        if raised is None:
            fails.append('exception of condition/message did not reach the caller')
        elif len(in_i) != 1 or in_f:
            fails.append('errored feedback not recorded exactly once as untriggered (feedback %d, ignored %d)' % (len(in_f), len(in_i)))
        elif bool(in_i[0]) or in_i[0]._status != 'error':
            fails.append('errored feedback is truthy or lacks error status')
        elif type(raised).__name__ not in ('ValueError', 'KeyError'):
            fails.append('a different exception reached the caller: %r' % raised)
        return fails
    if raised is not None:
        fails.append('constructor raised %s: %s' % (type(raised).__name__, raised))
        return fails
    if name in ('TrueCond', 'ListCond'):
        want = True
    elif name == 'FalseCond':
        want = False
    else:
        want = bool(kw.get('activate', True))
    if len(in_f) + len(in_i) != 1:
        fails.append('recorded %d times' % (len(in_f) + len(in_i)))
    elif (obj in in_f) != want:
        fails.append('recorded in the wrong list')
    if bool(obj) != want:
        fails.append('truth value %r differs from the outcome %r' % (bool(obj), want))
    if want:
        if 'message' in kw:
            if obj.message != kw['message']:
                fails.append('explicit message not delivered')
        elif name == 'WithTemplate' or 'message_template' in kw:
            tmpl = kw.get('message_template', "Value {x} and {name:name}")
            fields = dict(kw.get('fields') or {})
            fields.update({k: v for k, v in kw.items() if k in ('x', 'name')})
            try:
                want_msg = tmpl.format(**{k: _W(v, report.format) for k, v in fields.items()})
            except Exception:
                want_msg = None
            if want_msg is not None and obj.message != want_msg:
                fails.append('template message %r, expected %r' % (obj.message, want_msg))
        elif obj.message != Feedback.DEFAULT_FEEDBACK_MESSAGE:
            fails.append('default message not used')
    for k in ('x', 'name'):
        if k in kw and obj.fields.get(k) != kw[k]:
            fails.append('extra keyword %s not stored as a field' % k)
    return fails


class _W:
    """independent rendering of a field: the first available formatter name that the spec ends with"""
    def __init__(self, v, fmt):
        self.v, self.fmt = v, fmt

    def __format__(self, spec):
        for n in self.fmt.available:
            if spec.endswith(n):
                rest = spec[:-len(n)]
                if rest.endswith(':'):
                    rest = rest[:-1]
                return format(getattr(self.fmt, n)(self.v), rest)
        return format(str(self.v), spec)


def bounded(arg):
    quick = arg.get('tier') == 'quick'
    failures, samples = [], []
    evaluations = 0
    distinct = set()
    kws = []
    for activate in (True, False):
        for msg in ({}, {'message': 'explicit'}, {'message_template': 'T {x}'}):
            for extra in ({}, {'x': 5, 'name': 'n'}, {'fields': {'x': 1, 'name': 'q'}}):
                if 'message_template' in msg and not extra:
                    continue          # a template naming a missing field raises by design
                for delay in (False, True):
                    kw = {'label': 'lab', 'activate': activate}
                    kw.update(msg)
                    kw.update(extra)
                    if delay:
                        kw['delay_condition'] = True
                    kws.append(kw)
    for cls in _classes():
        for kw in kws:
            for parent_kind in (None, 'int', 'str', 'feedback'):
                evaluations += 1
                distinct.add((cls.__name__, tuple(sorted(k for k in kw)), parent_kind, kw.get('activate')))
                fails = one_case(cls, kw, parent_kind)
                if len(samples) < 2 and cls.__name__ == 'WithTemplate':
                    samples.append({'class': cls.__name__, 'keywords': {k: repr(v) for k, v in kw.items()}, 'parent': parent_kind})
                for f in fails:
                    failures.append({'id': 'construct', 'canon': f.split(':')[0] + (' (parent %s)' % parent_kind if 'raised' in f else ''),
                                     'detail': '%s(%r) parent=%s: %s' % (cls.__name__, kw, parent_kind, f)})
    # rendering goes through the report's formatter with the RAW field value
    from pedal.core.report import Report as _R
    from pedal.core.feedback import Feedback as _F
    from pedal.core.formatting import Formatter as _Fmt

    class TypeFormatter(_Fmt):
        def name(self, x):
            return '<%s:%r>' % (type(x).__name__, x)

        def line(self, x):
            return 'L%d' % (x + 1)
    for tmpl, fields in (("at {where:line}", {'where': 27}), ("{n:name}", {'n': 5}), ("{n:name}", {'n': ['a']}),
                         ("{where:>6:line}", {'where': 3}), ("{s:name} {s}", {'s': 'txt'})):
        rep = _R()
        rep.set_formatter(TypeFormatter())
        evaluations += 1
        distinct.add(('format', tmpl))
        try:
            fb = _F(report=rep, label='fmt', message_template=tmpl, fields=dict(fields))
            want = tmpl.format(**{k: _W(v, rep.format) for k, v in fields.items()})
            if fb.message != want:
                failures.append({'id': 'formatter', 'canon': 'field not rendered through the formatter with its raw value',
                                 'detail': 'template %r fields %r: message %r, expected %r' % (tmpl, fields, fb.message, want)})
        except Exception as e:
            failures.append({'id': 'formatter', 'canon': 'field not rendered through the formatter with its raw value',
                             'detail': 'template %r fields %r raised %r' % (tmpl, fields, e)})
    # override / clear sequences
    from pedal.core.report import Report
    from pedal.core.feedback import Feedback
    rnd = random.Random(arg.get('seed', 0))

    class A(Feedback):
        title = "A-title"
        muted = False

    class B(A):
        priority = 'low'

    class N(A):
        """declares None itself, hiding the value of its base class"""
        title = None
        muted = None
    orig = {(c, f): getattr(c, f) for c in (A, B, N) for f in ('title', 'muted', 'priority', 'category')}
    own = {(c, f) for c in (A, B, N) for f in ('title', 'muted', 'priority', 'category') if f in c.__dict__}
    # every ordered pair of overrides over {A, B(A), N(A)} x fields x two values, then clear()
    import itertools as _it
    pairs = list(_it.product(_it.product([A, B, N], ['title', 'muted', 'priority', 'category'], ['x', None]), repeat=2))
    for ops_ in pairs:
        report = Report()
        for c, f, v in ops_:
            c.override(report=report, **{f: v})
        report.clear()
        evaluations += 1
        distinct.add(tuple((c.__name__, f, v) for c, f, v in ops_))
        bad = [(c.__name__, f) for (c, f), v in orig.items() if getattr(c, f) != v or (f in c.__dict__) != ((c, f) in own)]
        if bad:
            failures.append({'id': 'override_restore', 'canon': 'class attribute not restored after clear()',
                             'detail': 'overrides %r then clear(): %r not as before' % (
                                 [(c.__name__, f, v) for c, f, v in ops_], bad)})
            for (c, f), v in orig.items():
                if (c, f) in own:
                    setattr(c, f, v)
                elif f in c.__dict__:
                    delattr(c, f)
    for _ in range(40 if quick else 400):
        report = Report()
        ops = []
        for _ in range(rnd.randint(1, 5)):
            c = rnd.choice([A, B])
            f = rnd.choice(['title', 'muted', 'priority', 'category'])
            v = rnd.choice(['x', True, None, 'high'])
            c.override(report=report, **{f: v})
            ops.append((c.__name__, f, v))
        report.clear()
        evaluations += 1
        distinct.add(tuple(ops))
        bad = [(c.__name__, f) for (c, f), v in orig.items() if getattr(c, f) != v]
        if bad:
            failures.append({'id': 'override_restore', 'canon': 'class attribute not restored after clear()',
                             'detail': 'overrides %r then clear(): %r still overridden' % (ops, bad)})
            for (c, f), v in orig.items():
                setattr(c, f, v)
    # two calls of a class that declares constant_fields do not share state through them
    class K(_F):
        constant_fields = {'unit': 'cm'}
        message_template = "{size}{unit}"
    rep = _R()
    evaluations += 1
    distinct.add(('constant_fields',))
    try:
        k1 = K(report=rep, label='k1', size=3, location=7)
        k2 = K(report=rep, label='k2', size=4)
        if K.constant_fields != {'unit': 'cm'}:
            failures.append({'id': 'construct', 'canon': 'constant_fields of the class changed by a call',
                             'detail': 'after K(size=3, location=7): K.constant_fields = %r' % (K.constant_fields,)})
        if k1.fields is k2.fields or k2.fields.get('size') != 4 or k1.fields.get('size') != 3 or 'location' in k2.fields \
                or k1.message != '3cm' or k2.message != '4cm':
            failures.append({'id': 'construct', 'canon': 'two feedback objects share their fields',
                             'detail': 'k1.fields=%r k2.fields=%r messages %r %r' % (k1.fields, k2.fields, k1.message, k2.message)})
    except Exception as e:
        failures.append({'id': 'construct', 'canon': 'constant_fields call raises', 'detail': repr(e)})
    # the message-taking commands deliver the text they were given, once
    from pedal.core import commands as C
    from pedal.core.commands import clear_report
    from pedal.core.report import MAIN_REPORT
    for name in ('gently', 'explain', 'guidance', 'compliment', 'debug', 'log'):
        cmd = getattr(C, name, None)
        if cmd is None:
            continue
        clear_report()
        evaluations += 1
        distinct.add(('command', name))
        try:
            cmd('hello there')
            got = [f.message for f in MAIN_REPORT.feedback + MAIN_REPORT.ignored_feedback]
            if got != ['hello there']:
                failures.append({'id': 'command', 'canon': 'command %s does not deliver its message' % name,
                                 'detail': '%s("hello there") recorded messages %r' % (name, got)})
        except Exception as e:
            failures.append({'id': 'command', 'canon': 'command %s raises' % name, 'detail': '%s("hello there") raised %r' % (name, e)})
    clear_report()
    # attributes and items of a field value are those of the value
    import types as _types
    for tmpl, fields, want in (("v={x.value}", {'x': _types.SimpleNamespace(value=5)}, "v=5"),
                               ("k={x.key}", {'x': _types.SimpleNamespace(key='K')}, "k=K"),
                               ("f={x.formatter}", {'x': _types.SimpleNamespace(formatter='F')}, "f=F"),
                               ("n={x.name}", {'x': _types.SimpleNamespace(name='N')}, "n=N"),
                               ("i={x[1]}", {'x': [7, 8]}, "i=8")):
        rep = _R()
        evaluations += 1
        distinct.add(('attr', tmpl))
        try:
            fb = _F(report=rep, label='attr', message_template=tmpl, fields=dict(fields))
            if fb.message != want:
                failures.append({'id': 'formatter', 'canon': 'attribute of a field value shadowed by the wrapper (%s)' % tmpl,
                                 'detail': 'template %r: message %r, expected %r' % (tmpl, fb.message, want)})
        except Exception as e:
            failures.append({'id': 'formatter', 'canon': 'attribute of a field value shadowed by the wrapper (%s)' % tmpl,
                             'detail': 'template %r raised %r' % (tmpl, e)})
    return {'name': 'B-feedback', 'bound': '%d feedback class shapes x %d keyword combinations x 4 parent kinds; %d random '
            'override()/clear() sequences of length <= 5 over two classes' % (len(_classes()), len(kws), 40 if quick else 400),
            'evaluations': evaluations, 'distinct_nontrivial': len(distinct),
            'rule': 'distinct = (class, keyword names, parent kind, activate) / override sequence', 'samples': samples,
            'failures': failures}


def ground(arg):
    return []


def replay(case):
    target, clause = case['target'], case['clause']
    from pedal.core.report import Report
    from pedal.core.feedback import Feedback
    if target.endswith('add_ignored_feedback') or target.endswith('add_feedback'):
        for parent in (case.get('witness', {}).get('parent'), 3, 'name', None):
            if isinstance(parent, dict):
                continue
            for activate in (False, True):
                report = Report()
                try:
                    Feedback(report=report, label='x', parent=parent, activate=activate)
                except Exception as e:
                    return {'confirmed': True, 'canon': 'feedback with parent of type %s, activate=%r raises %s' % (
                        type(parent).__name__, activate, type(e).__name__),
                        'input': {'parent': parent, 'activate': activate}, 'observed': repr(e)}
                if len(report.feedback) + len(report.ignored_feedback) != 1:
                    return {'confirmed': True, 'canon': 'not recorded once', 'input': {'parent': parent}, 'observed': ''}
        return {'confirmed': False}
    if '_handle_condition' in target or '_get_message' in target:
        for cls in _classes():
            for kw in ({'label': 'l'}, {'label': 'l', 'activate': False}, {'label': 'l', 'message': 'm'}):
                fails = one_case(cls, kw, None)
                if fails:
                    return {'confirmed': True, 'canon': fails[0].split(':')[0], 'input': {'class': cls.__name__, 'kw': kw},
                            'observed': fails}
        return {'confirmed': False}
    if target.endswith('chomp_spec'):
        from pedal.core.formatting import chomp_spec
        for spec, word in (('name', 'name'), (':name', 'name'), ('>10:name', 'name'), ('x', 'name'), ('', 'name'), ('aname', 'name')):
            got = chomp_spec(spec, word)
            want = spec
            if spec.endswith(word):
                want = spec[:-len(word)]
                if want.endswith(':'):
                    want = want[:-1]
            if got != want:
                return {'confirmed': True, 'canon': 'chomp_spec(%r, %r)' % (spec, word), 'input': [spec, word],
                        'observed': {'got': got, 'want': want}}
        return {'confirmed': False}
    return {'confirmed': False, 'note': 'no replay builder'}
