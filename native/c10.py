"""C10 native side: bounded stand-in B-cait-sound.

For every (pattern, program) pair of a generated corpus the matches returned by the real matcher are
checked against an independent witness checker: kinds and literal/identifier content of paired nodes,
direct-child and left-to-right structure (up to operand swap of + and *), single binding of every _name_
placeholder, __expr__ placeholders bound to the subtree at their position; patterns whose concrete
content occurs nowhere yield no match."""
import ast
import itertools
import random
import re

PROGRAMS = [
    "x = 0\nfor item in values:\n    x = x + item\nprint(x)\n",
    "total = 0\ncount = 0\nfor n in numbers:\n    total = total + n\n    count = count + 1\naverage = total / count\nprint(average)\n",
    "def area(w, h):\n    return w * h\nresult = area(3, 4) + 1\nprint(result)\n",
    "name = input('Name? ')\nif name == 'Ada':\n    print('Hi ' + name)\nelse:\n    print('Who?', name)\n",
    "a = 2\nb = 3\nc = a * b + b * a\nd = (a + b) * (b + a)\nprint(c, d)\n",
    "words = ['x', 'y']\nfor w in words:\n    if w == 'x':\n        print(w)\n    print(len(w))\n",
    "i = 0\nwhile i < 10:\n    i = i + 1\n    if i % 2 == 0:\n        continue\n    print(i)\n",
    "import math\nr = 2.5\narea = math.pi * r ** 2\nprint(round(area, 2))\n",
    "data = {'a': 1}\ndata['b'] = data['a'] + 1\nfor k in data:\n    print(k, data[k])\n",
    "x = 1\ny = 1\nz = x + y\nx = y\ny = z\nprint(x + 1, 1 + x, x - 1)\n",
    "def f(n):\n    if n <= 1:\n        return 1\n    return n * f(n - 1)\nclass Box:\n    def __init__(self, v):\n        self.v = v\nprint(f(5), Box(2).v)\n",
    "flag = True\nnothing = None\nnum = 0\ntext = '0'\nval = 0.0\nprint(flag, nothing, num, text, val)\n",
    "from .shapes import area\nfrom shapes import volume\nimport os.path as p\nsquares = [n * n for n in range(5) if n]\n"
    "async def go(src):\n    return [v async for v in src]\nprint(area, volume, squares, p)\n",
    "count = 0\nfor item in basket:\n    count = count + 1\n    price = item + 1\nprint(count + 1, price * 2)\n",
    "a = 0\nprint(b)\nc = 5\nprint(a)\nfor i in data:\n    print(x)\n    print(y)\n    z = x\n",
    "for report in reports:\n    if report[city] == 1:\n        pass\n_row_count = 0\ntotal = 0\ndef _helper_fn():\n    pass\ndef other():\n    pass\n",
    "a = 1\nb = print(a)\nxs = [5, 6, 7]\nc = xs[:a] + 1\nd = xs[a:] + 1\ndef f():\n    return print(a)\n",
    "total = 0\nseen = 0\ndef bump():\n    global total\n    total = total + 1\ndef both():\n    global total, seen\n    seen = 1\n"
    "raw = b'abc'\nz = 2j\ndef inner():\n    v = 1\n    def g():\n        nonlocal v\n        v = 2\n",
]

HAND_PATTERNS = [
    "for _item_ in _list_:\n    _acc_ = _acc_ + _item_", "for _item_ in _list_:\n    _acc_ = _item_ + _acc_",
    "_a_ = 0\nfor ___ in ___:\n    pass", "_x_ = __expr__", "_f_(__e__, __e__)", "__e__ = __e__ + ___", "_x_ = _x_ + ___", "print(___)", "print(__e__)", "_f_(___)",
    "def _f_(___):\n    return ___", "def _f_(_a_, _b_):\n    return _a_ * _b_", "if ___:\n    print(___)", "if __c__:\n    pass\nelse:\n    pass",
    "___ + ___", "_a_ * _b_ + _b_ * _a_", "_a_ * _b_ + _a_ * _b_", "_a_ + _a_", "_a_ + _b_", "___ = ___\n___ = ___",
    "_a_ = ___\n_b_ = ___\n_a_ = _b_", "while ___:\n    _i_ = _i_ + 1", "import ___", "___[___]", "_d_[___] = _d_[___] + 1",
    "class _C_:\n    pass", "___.___", "_x_ == ___", "___ % 2 == 0", "x = 0", "x = 1", "y = 1\nx = y", "x = y\ny = 1", "print(x)",
    "x + 1", "1 + x", "x - 1", "1 - x", "_v_ = None", "_v_ = True", "_v_ = 0", "_v_ = '0'", "_v_ = 0.0", "_v_ = 1", "return ___",
    "from shapes import area", "from shapes import volume", "from .shapes import area", "[_x_ for _x_ in ___]",
    "[___ for ___ in ___]", "[_x_ * _x_ for _x_ in ___ if _x_]", "import os.path as p",
    "global total", "global total, seen", "global seen, total", "global seen", "raw = b'abc'", "raw = b'zzz'", "_r_ = b'abc'",
    "_r_ = b''", "z = 2j", "z = 3j", "_z_ = 2j", "nonlocal v", "nonlocal v, w",
    "_x_ = 0\nprint(_x_)\n_y_ = 5", "_x_ = 0\nprint(_x_)", "for _i_ in __a__:\n    print(__b__)", "for _i_ in ___:\n    print(__b__)\n    _z_ = __b__",
    "print(__b__)\nprint(__c__)", "_p_ = ___\nprint(_q_)\n_r_ = ___\nprint(_p_)",
    "a = 1\nprint(a)", "def f():\n    print(a)", "xs[a:] + 1", "xs[:a] + 1", "xs[a:]", "___[_i_:] + ___", "___[:_i_] * ___",
    "_row_count = 0", "_tmp_val = ___", "def _helper_fn():\n    pass", "def _other_fn():\n    pass", "_x_y = 0",
    "for _w_ in ___:\n    print(_w_)", "for _w_ in ___:\n    print(len(_w_))", "for _w_ in ___:\n    print(_q_)",
]

WILD = re.compile(r'^___$')
EXPR = re.compile(r'^__.*__$')
VAR = re.compile(r'^_[^_].*_$')


def kind_of_name(s):
    if not isinstance(s, str):
        return 'concrete'
    if WILD.match(s):
        return 'wild'
    if EXPR.match(s):
        return 'expr'
    if VAR.match(s):
        return 'var'
    return 'concrete'


NAME_FIELDS = {'Name': 'id', 'arg': 'arg', 'Attribute': 'attr', 'FunctionDef': 'name', 'ClassDef': 'name'}


def placeholder(node):
    """(kind, text) of the identifier a pattern node carries, if it is a placeholder position"""
    f = NAME_FIELDS.get(type(node).__name__)
    if f is None:
        return 'concrete', None
    return kind_of_name(getattr(node, f)), getattr(node, f)


def identifier_of(node):
    f = NAME_FIELDS.get(type(node).__name__)
    return getattr(node, f) if f else None


def primitives(node):
    out = {}
    for f, v in ast.iter_fields(node):
        if isinstance(v, (str, int, float, bool, complex, bytes)) or v is None:
            out[f] = v
        elif isinstance(v, list) and v and all(isinstance(x, (str, int, float, bool)) for x in v):
            out[f] = tuple(v)
    return out


def check_match(m, pattern, program, earlier=None):
    """-> list of (canon, detail) violations of the embedding witness; `earlier` = the match this one continues
    (use_previous): its pairings are carried along, only the new pattern's placeholders are judged for binding"""
    bad = []

    def _below(node):
        p = node.parent
        while p is not None:
            if type(p.astNode).__name__ == 'BinOp' and type(p.astNode.op).__name__ in ('Add', 'Mult'):
                return True
            p = p.parent
        return False
    pairs = list(m.mappings.items())
    carried = set(id(i) for i in earlier.mappings) if earlier is not None else set()
    partner = dict((id(i), s) for i, s in pairs)
    for ins, std in pairs:
        ia, sa = ins.astNode, std.astNode
        kind, text = placeholder(ia)
        tname = type(ia).__name__
        if tname == 'Name' and kind in ('wild', 'expr'):
            if kind == 'expr' and id(ins) not in carried:
                bound = m.exp_table.get(text)
                if bound is None or bound is not std and sum(1 for i, _ in pairs if id(i) not in carried and type(i.astNode).__name__ == 'Name' and i.astNode.id == text) == 1:
                    bad.append(('expr_placeholder_not_bound_to_its_subtree', '%s bound to %r, paired with line %s' % (
                        text, bound, getattr(sa, 'lineno', '?'))))
                elif bound is not None and bound is not std and ast.unparse(getattr(bound, 'astNode', bound)) != ast.unparse(sa):
                    # the same __name__ at several positions: one table entry cannot be the subtree at each of them
                    bad.append(('repeated_expr_placeholder_stands_at_different_subtrees', '%s bound to %r, but one of its '
                                'positions holds %r' % (text, ast.unparse(getattr(bound, 'astNode', bound))[:30], ast.unparse(sa)[:30])))
            continue
        if tname in ('Module', 'Pass'):
            continue                     # documented: Module matches a body, pass matches any statement
        if tname == 'Expr' and type(ia.value).__name__ == 'Name' and kind_of_name(ia.value.id) in ('wild', 'expr'):
            continue                     # a bare wildcard statement
        if tname == 'Expr' and type(sa).__name__ != 'Expr':
            bad.append(('expression_statement_paired_with_another_statement_kind',
                        'pattern expression statement %r paired with student %s' % (ast.unparse(ia)[:30], type(sa).__name__)))
            continue
        if type(ia) is not type(sa):
            # _var_ in attribute / argument position may pair with the node carrying the identifier
            if not (kind == 'var' and identifier_of(sa) is not None):
                bad.append(('kind_mismatch', 'pattern %s paired with student %s' % (tname, type(sa).__name__)))
                continue
        ip, sp = primitives(ia), primitives(sa)
        for f, v in ip.items():
            if f in ('ctx', 'lineno', 'col_offset', 'end_lineno', 'end_col_offset', 'type_comment', 'kind', '_id'):
                continue
            if f == NAME_FIELDS.get(tname) and kind in ('var', 'wild'):
                continue
            if f not in sp or sp[f] != v or type(sp[f]) is not type(v):
                bad.append(('content_mismatch' + (' (below a + or *)' if _below(ins) else ''), 'pattern %s.%s = %r paired with student %s.%s = %r' % (
                    tname, f, v, type(sa).__name__, f, sp.get(f, '<missing>'))))
        # structure: the partner of my parent is the parent of my partner
        if ins.parent is not None and id(ins.parent) in partner:
            pstd = partner[id(ins.parent)]
            commutative = type(ins.parent.astNode).__name__ == 'BinOp' and type(ins.parent.astNode.op).__name__ in ('Add', 'Mult')
            if std.parent is pstd and ins.field != std.field and not commutative and ins.field not in ('none',) \
                    and std.field not in ('none',):
                bad.append(('child_paired_across_fields' + (' (below a + or *)' if _below(ins) else ''), 'pattern %s.%s paired with student %s.%s' % (
                    type(ins.parent.astNode).__name__, ins.field, type(pstd.astNode).__name__, std.field)))
            if std.parent is not pstd:
                bad.append(('not_a_direct_child', 'pattern %s under %s: student %s is not a child of the partner %s' % (
                    tname, type(ins.parent.astNode).__name__, type(sa).__name__, type(pstd.astNode).__name__)))
    def below_commutative(node):
        p = node.parent
        while p is not None:
            if type(p.astNode).__name__ == 'BinOp' and type(p.astNode.op).__name__ in ('Add', 'Mult'):
                return True
            p = p.parent
        return False
    flagged = []
    for canon, detail in bad:
        flagged.append((canon, detail))
    bad = flagged
    # left-to-right order of mapped siblings
    by_parent = {}
    for ins, std in pairs:
        if ins.parent is not None and id(ins.parent) in partner:
            by_parent.setdefault(id(ins.parent), (ins.parent, []))[1].append((ins, std))
    for _, (parent, kids) in by_parent.items():
        pa = parent.astNode
        if type(pa).__name__ == 'BinOp' and type(pa.op).__name__ in ('Add', 'Mult'):
            continue
        pstd = partner[id(parent)]
        try:
            order = sorted(kids, key=lambda p: parent.children.index(p[0]))
            idx = [pstd.children.index(s) for _, s in order]
        except ValueError:
            continue                     # already reported as not_a_direct_child
        if any(b <= a for a, b in zip(idx, idx[1:])):
            bad.append(('sibling_order', 'children of pattern %s map to student child positions %r' % (type(pa).__name__, idx)))
    # single binding of _name_ placeholders
    bindings = {}
    for ins, std in pairs:
        kind, text = placeholder(ins.astNode)
        if kind == 'var':
            ident = identifier_of(std.astNode)
            if ident is None and type(std.astNode).__name__ == 'Call':
                continue
            bindings.setdefault(text, set()).add(ident)
    for text, idents in bindings.items():
        if len(idents) > 1:
            bad.append(('placeholder_bound_to_several_identifiers', '%s bound to %r' % (text, sorted(map(str, idents)))))
    for table in (m.symbol_table, m.func_table, m.class_table):
        for key, symbols in table.items():
            ids = set(s.id for s in symbols)
            if len(ids) > 1:
                bad.append(('placeholder_bound_to_several_identifiers', 'table entry %s holds %r' % (key, sorted(map(str, ids)))))
    return bad


def concrete_content(pattern):
    """identifiers and literals a pattern demands literally"""
    out = set()
    for n in ast.walk(ast.parse(pattern)):
        kind, text = placeholder(n)
        if text is not None and kind == 'concrete':
            out.add(('id', text))
        if isinstance(n, ast.Constant) and n.value is not None and not isinstance(n.value, bool):
            out.add(('lit', type(n.value).__name__, n.value))
    return out


def program_content(program):
    out = set()
    for n in ast.walk(ast.parse(program)):
        ident = identifier_of(n)
        if ident is not None:
            out.add(('id', ident))
        if isinstance(n, ast.Constant) and n.value is not None and not isinstance(n.value, bool):
            out.add(('lit', type(n.value).__name__, n.value))
    return out


class _Abstract(ast.NodeTransformer):
    """derive a pattern from a program subtree: rename identifiers to placeholders / wildcards"""

    def __init__(self, rnd, mode):
        self.rnd, self.mode, self.names = rnd, mode, {}

    def visit_Name(self, node):
        if node.id in ('print', 'len', 'input', 'round', 'range'):
            return node
        r = self.rnd.random()
        if self.mode == 'concrete':
            return node
        if self.mode == 'vars' or r < 0.5:
            ph = self.names.setdefault(node.id, '_v%d_' % len(self.names))
            return ast.copy_location(ast.Name(id=ph, ctx=node.ctx), node)
        if r < 0.75:
            return ast.copy_location(ast.Name(id='___', ctx=node.ctx), node)
        return node

    def visit_Constant(self, node):
        if self.mode == 'mixed' and self.rnd.random() < 0.4:
            return ast.copy_location(ast.Name(id='___', ctx=ast.Load()), node)
        return node


def derived_patterns(program, rnd, per_program):
    tree = ast.parse(program)
    nodes = [n for n in ast.walk(tree) if isinstance(n, (ast.stmt, ast.BinOp, ast.Call, ast.Compare, ast.Subscript))]
    out = []
    for _ in range(per_program):
        n = rnd.choice(nodes)
        mode = rnd.choice(['concrete', 'vars', 'mixed', 'mixed'])
        try:
            # a private copy of the subtree (ast context/operator nodes are interpreter-wide singletons: no deepcopy)
            sub = _Abstract(rnd, mode).visit(ast.parse(ast.unparse(n)))
            text = ast.unparse(ast.fix_missing_locations(sub))
            ast.parse(text)
        except Exception:
            continue
        out.append(text)
        # a conflicting variant: two different identifiers forced onto one placeholder
        if mode == 'vars' and rnd.random() < 0.5:
            names = sorted(set(re.findall(r'_v\d+_', text)))
            if len(names) >= 2:
                out.append(text.replace(names[1], names[0]))
    return out


# follow-up searches: the second pattern continues a match of the first (use_previous)
FOLLOW_UPS = [("for _item_ in ___:\n    pass", "_item_ + 1"), ("for _item_ in ___:\n    pass", "_item_ + ___"),
              ("_x_ = 0", "_x_ + 1"), ("_x_ = 0", "_x_ = _x_ + ___"), ("_x_ = ___", "print(_x_)"), ("_x_ = ___", "_x_ * 2"),
              ("def _f_(___):\n    pass", "_f_(___)"), ("_a_ = 2", "_a_ * _b_"), ("_a_ = 2", "_b_ * _a_ + ___"),
              ("for _v_ in ___:\n    if __e__ == 1:\n        pass", "_arr_[__e__]"), ("if __e__ == 1:\n    pass", "___[__e__]"),
              ("_x_ = __e__", "__e__ + 1"), ("_x_ = __e__", "__e__ * 2"), ("print(__e__)", "__e__ + ___"), ("_x_ = __e__", "print(__e__)"),
              # a leaf pattern has no children whose merging weeds out conflicts with the earlier match
              ("_x_ = 1", "_x_"), ("_x_ = ___", "_x_"), ("def _f_(___):\n    pass", "_f_")]


def run_matcher(pattern, program):
    from pedal.core.commands import clear_report, contextualize_report
    from pedal.cait.cait_api import find_matches
    clear_report()
    contextualize_report(program)
    return find_matches(pattern)


def bounded(arg):
    quick = arg.get('tier') == 'quick'
    rnd = random.Random(arg.get('seed', 0) + 10)
    failures, samples = [], []
    evaluations = 0
    distinct = set()
    matched_pairs = 0
    total_matches = 0
    derived = [derived_patterns(program, rnd, 25 if quick else 150) for program in PROGRAMS]
    for n, program in enumerate(PROGRAMS):
        # the program's own derived patterns (they should match) and those of the other programs (mostly should not)
        patterns = list(HAND_PATTERNS) + derived[n]
        for k in range(len(PROGRAMS)):
            if k != n:
                patterns += derived[k][:(8 if quick else 60)]
        content = program_content(program)
        for pattern in patterns:
            evaluations += 1
            distinct.add((pattern, program))
            try:
                matches = run_matcher(pattern, program)
            except Exception as e:
                failures.append({'id': 'matcher_raises', 'canon': 'matcher_raises', 'detail': '%r on pattern %r, program %r' % (e, pattern, program)})
                continue
            if matches:
                matched_pairs += 1
                total_matches += len(matches)
            missing = concrete_content(pattern) - content
            if missing and matches:
                failures.append({'id': 'match_without_the_concrete_content', 'canon': 'match_without_the_concrete_content',
                                 'detail': 'pattern %r demands %r which the program %r does not contain, %d matches' % (
                                     pattern, sorted(map(str, missing)), program, len(matches))})
            for m in matches or []:
                for canon, detail in check_match(m, pattern, program):
                    if sum(1 for f in failures if f['canon'] == canon) < 15:
                        failures.append({'id': canon.split(' (')[0], 'canon': canon,
                                         'detail': detail + ' | pattern %r | program %r' % (pattern, program)})
    follow_ups = 0
    from pedal.cait.cait_api import find_matches
    for program in PROGRAMS:
        for first, second in FOLLOW_UPS:
            for m1 in run_matcher(first, program) or []:
                evaluations += 1
                distinct.add((first, second, program))
                try:
                    later = find_matches(second, use_previous=m1)
                except Exception as e:
                    failures.append({'id': 'matcher_raises', 'canon': 'matcher_raises',
                                     'detail': '%r on follow-up %r after %r, program %r' % (e, second, first, program)})
                    continue
                for m2 in later or []:
                    follow_ups += 1
                    for canon, detail in check_match(m2, second, program, earlier=m1):
                        if sum(1 for f in failures if f['canon'] == canon) < 15:
                            failures.append({'id': canon.split(' (')[0], 'canon': canon, 'detail': detail + ' | follow-up pattern %r after %r | program %r' % (
                                second, first, program)})
    samples = [{'pattern': HAND_PATTERNS[0], 'program': PROGRAMS[0]}, {'pattern': HAND_PATTERNS[13], 'program': PROGRAMS[4]}]
    return {'name': 'B-cait-sound', 'bound': '%d programs x (%d hand-written patterns + %d patterns derived from the program\'s own '
            'subtrees by renaming identifiers to _var_ placeholders / wildcards, with conflicting variants, plus patterns derived from the other programs): %d pairs, %d with '
            'matches, %d matches checked against the witness checker; %d follow-up matches (use_previous) of %d pattern pairs' % (len(PROGRAMS), len(HAND_PATTERNS), 25 if quick else 150,
                                                                         evaluations, matched_pairs, total_matches, follow_ups, len(FOLLOW_UPS)),
            'evaluations': evaluations, 'distinct_nontrivial': len(distinct),
            'rule': 'distinct = (pattern, program)', 'samples': samples, 'failures': failures}


def ground(arg):
    return []


def replay(case):
    r = bounded({'tier': 'quick'})
    for f in r['failures']:
        return {'confirmed': True, 'canon': f['canon'], 'input': f['detail'], 'observed': f['detail']}
    return {'confirmed': False}
