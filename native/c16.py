"""C16 native side: bounded stand-in B-ops (proxy).  Every operation family of the statement x
every ordered pair of value classes x each placement of the proxy (left, right, both), the real
SandboxResult against the raw value under CPython: same success/failure, equal result, nothing
printed, never the NotImplemented sentinel."""
import io
import itertools
import math
import operator
import sys


class Pt:
    """user object with a few operators"""
    def __init__(self, x):
        self.x = x

    def __eq__(self, o):
        return isinstance(o, Pt) and o.x == self.x

    def __hash__(self):
        return hash(('Pt', self.x))

    def __add__(self, o):
        if isinstance(o, Pt):
            return Pt(self.x + o.x)
        return NotImplemented

    def __radd__(self, o):
        if isinstance(o, int):
            return Pt(self.x + o)
        return NotImplemented

    def __rmul__(self, o):
        if isinstance(o, int):
            return Pt(self.x * o)
        return NotImplemented

    def __lt__(self, o):
        if isinstance(o, Pt):
            return self.x < o.x
        return NotImplemented

    def __repr__(self):
        return 'Pt(%r)' % self.x

    def __len__(self):
        return 2

    def __bool__(self):
        return bool(self.x)


def values():
    return [('int', 7), ('int0', 0), ('negint', -3), ('float', 2.5), ('bool', True), ('str', 'ab'), ('empty_str', ''),
            ('list', [1, 2]), ('tuple', (1, 2)), ('dict', {'a': 1}), ('set', {1, 2}), ('none', None), ('complex', 1 + 2j),
            ('user', Pt(3)), ('frozenset', frozenset({1}))]


BINARY = [('+', operator.add), ('-', operator.sub), ('*', operator.mul), ('/', operator.truediv), ('//', operator.floordiv),
          ('%', operator.mod), ('**', operator.pow), ('<<', operator.lshift), ('>>', operator.rshift), ('&', operator.and_),
          ('|', operator.or_), ('^', operator.xor), ('@', operator.matmul), ('divmod', divmod),
          ('==', operator.eq), ('!=', operator.ne), ('<', operator.lt), ('<=', operator.le), ('>', operator.gt),
          ('>=', operator.ge)]
UNARY = [('neg', operator.neg), ('pos', operator.pos), ('abs', abs), ('invert', operator.invert), ('len', len),
         ('bool', bool), ('hash', hash), ('str', str), ('repr', repr), ('format', lambda v: format(v, '')),
         ('int', int), ('float', float), ('complex', complex), ('round', round), ('round2', lambda v: round(v, 1)),
         ('trunc', math.trunc), ('floor', math.floor), ('ceil', math.ceil), ('index', operator.index),
         ('iter', lambda v: list(iter(v))), ('getitem0', lambda v: v[0]), ('getitem_a', lambda v: v['a']),
         ('isinstance', lambda v: (isinstance(v, int), isinstance(v, str), isinstance(v, list), isinstance(v, Pt))),
         ('contains1', lambda v: 1 in v), ('contains_a', lambda v: 'a' in v)]


def outcome(fn, *args):
    """(ok, value) with stdout captured"""
    buf = io.StringIO()
    old = sys.stdout
    sys.stdout = buf
    try:
        try:
            v = fn(*args)
            res = ('ok', v)
        except RecursionError:
            res = ('fail', 'RecursionError')
        except Exception as e:
            res = ('fail', type(e).__name__)
    finally:
        sys.stdout = old
    return res, buf.getvalue()


def unwrap(v):
    from pedal.sandbox.result import unwrap_value
    return unwrap_value(v)


def same(a, b):
    a, b = unwrap(a), unwrap(b)
    if a is NotImplemented or b is NotImplemented:
        return a is b
    try:
        if type(a) is not type(b):
            return False
        if isinstance(a, float) and a != a:
            return b != b
        return a == b
    except Exception:
        return repr(a) == repr(b)


def bounded(arg):
    from pedal.sandbox.result import SandboxResult
    failures, samples = [], []
    evaluations = 0
    distinct = set()

    def report(kind, opname, desc, raw, got, printed):
        canon = None
        if printed:
            canon = '%s writes to standard output' % opname
        elif raw[0] == 'ok' and got[0] == 'fail':
            canon = '%s works on the value but fails on the proxy' % opname
        elif raw[0] == 'fail' and got[0] == 'ok':
            canon = '%s fails on the value but succeeds on the proxy' % opname
        elif raw[0] == 'ok' and unwrap(got[1]) is NotImplemented:
            canon = '%s hands back NotImplemented' % opname
        elif raw[0] == 'ok' and not same(raw[1], got[1]):
            canon = '%s gives a different result on the proxy' % opname
        if canon:
            failures.append({'id': kind, 'canon': canon, 'detail': '%s: raw %r, proxy %r%s' % (
                desc, raw, (got[0], repr(got[1])[:60]), ', printed %r' % printed[:40] if printed else '')})

    vals = values()
    for (na, a), (nb, b) in itertools.product(vals, vals):
        for opname, fn in BINARY:
            raw, _ = outcome(fn, a, b)
            for place in ('left', 'right', 'both'):
                x = SandboxResult(a) if place in ('left', 'both') else a
                y = SandboxResult(b) if place in ('right', 'both') else b
                got, printed = outcome(fn, x, y)
                evaluations += 1
                distinct.add((opname, na, nb, place))
                report('binary', opname + (' (proxy on the %s)' % place if place != 'both' else ' (both proxied)'),
                       '%s %s %s [%s]' % (na, opname, nb, place), raw, got, printed)
    for (na, a) in vals:
        for opname, fn in UNARY:
            raw, _ = outcome(fn, a)
            got, printed = outcome(fn, SandboxResult(a))
            evaluations += 1
            distinct.add((opname, na))
            report('unary', opname, '%s(%s)' % (opname, na), raw, got, printed)
        # membership with a proxied needle, and module-level len
        for needle_name, needle in (('int', 1), ('str', 'a')):
            raw, _ = outcome(lambda c, n: n in c, a, needle)
            got, printed = outcome(lambda c, n: n in c, SandboxResult(a), SandboxResult(needle))
            evaluations += 1
            report('unary', 'membership of a proxied item', '%s in %s' % (needle_name, na), raw, got, printed)
        from pedal.sandbox import result as R
        raw, _ = outcome(len, a)
        got, printed = outcome(R.len, a)
        evaluations += 1
        report('unary', 'pedal.sandbox.result.len on a plain value', 'len(%s)' % na, raw, got, printed)
        got, printed = outcome(R.len, SandboxResult(a))
        evaluations += 1
        report('unary', 'pedal.sandbox.result.len on a proxy', 'len(proxy %s)' % na, raw, got, printed)
    samples = [{'operation': '+', 'left': 'int 7', 'right': 'float 2.5', 'placement': 'left'},
               {'operation': 'float()', 'value': 'int 7'}, {'operation': 'in', 'container': "dict {'a': 1}", 'item': "proxy 'a'"}]
    return {'name': 'B-ops(proxy)', 'bound': 'exhaustive: %d binary operations x %d x %d value pairs x 3 proxy placements, '
            '%d unary operations/builtins x %d values' % (len(BINARY), len(vals), len(vals), len(UNARY) + 4, len(vals)),
            'evaluations': evaluations, 'distinct_nontrivial': len(distinct), 'exhaustive': True,
            'rule': 'distinct = (operation, value classes, placement)', 'samples': samples, 'failures': failures}


def ground(arg):
    """existence: every forward operator method of the statement's families has its reflected twin"""
    from pedal.sandbox.result import SandboxResult
    out = []
    for name in ('add', 'sub', 'mul', 'matmul', 'truediv', 'floordiv', 'mod', 'divmod', 'pow', 'lshift', 'rshift', 'and',
                 'xor', 'or'):
        for pre in ('__', '__r'):
            m = pre + name + '__'
            out.append({'id': 'defines[%s]' % m, 'ok': m in SandboxResult.__dict__,
                        'detail': 'SandboxResult %s %s' % ('defines' if m in SandboxResult.__dict__ else 'does not define', m),
                        'witness': {'method': m}, 'canon': 'missing ' + m})
    return out


def replay(case):
    r = bounded({})
    clause = case.get('clause', '')
    target = case.get('target', '')
    meth = target.split('.')[-1]
    for f in r['failures']:
        return {'confirmed': True, 'canon': f['canon'], 'input': f['detail'], 'observed': f['detail']}
    return {'confirmed': False}
