"""C16 native side: bounded stand-in B-ops (proxy).  Every operation family of the statement x
every ordered pair of value classes x each placement of the proxy (left, right, both), the real
SandboxResult against the raw value under CPython: same success/failure, equal result, nothing
printed, never the NotImplemented sentinel."""
import io
import itertools
import math
import operator
import sys


class Pt:
    """user object with a few operators"""
    def __init__(self, x):
        self.x = x

    def __eq__(self, o):
        return isinstance(o, Pt) and o.x == self.x

    def __hash__(self):
        return hash(('Pt', self.x))

    def __add__(self, o):
        if isinstance(o, Pt):
            return Pt(self.x + o.x)
        return NotImplemented

    def __radd__(self, o):
        if isinstance(o, int):
            return Pt(self.x + o)
        return NotImplemented

    def __rmul__(self, o):
        if isinstance(o, int):
            return Pt(self.x * o)
        return NotImplemented

    def __lt__(self, o):
        if isinstance(o, Pt):
            return self.x < o.x
        return NotImplemented

    def __repr__(self):
        return 'Pt(%r)' % self.x

    def __len__(self):
        return 2

    def __bool__(self):
        return bool(self.x)


class Coin:
    """user object that has an attribute called `value` of its own (the proxy keeps the student's object in a field of
    that name); its operators work on another field"""
    def __init__(self, cents):
        self.cents = cents
        self.value = cents / 100

    def __eq__(self, o):
        return isinstance(o, Coin) and o.cents == self.cents

    def __hash__(self):
        return hash(('Coin', self.cents))

    def __add__(self, o):
        if isinstance(o, Coin):
            return Coin(self.cents + o.cents)
        if isinstance(o, int):
            return Coin(self.cents + o)
        return NotImplemented

    __radd__ = __add__

    def __lt__(self, o):
        if isinstance(o, Coin):
            return self.cents < o.cents
        return NotImplemented

    def __repr__(self):
        return 'Coin(%r)' % self.cents

    def __len__(self):
        return 1

    def __bool__(self):
        return self.cents != 0

    def __int__(self):
        return self.cents


class Token:
    """user object whose comparison reads the OTHER operand's `value` attribute - the name of the field in which the
    proxy keeps the student's object"""
    def __init__(self, value):
        self.value = value

    def __eq__(self, o):
        return isinstance(o, Token) and o.value == self.value

    def __hash__(self):
        return hash(('Token', self.value))

    def __repr__(self):
        return 'Token(%r)' % self.value


class OnlyFloat:
    """converts to float, has no __floor__/__ceil__/__trunc__ of its own"""
    def __float__(self):
        return 2.5

    def __eq__(self, o):
        return isinstance(o, OnlyFloat)

    def __hash__(self):
        return 7


def values():
    return [('int', 7), ('int0', 0), ('negint', -3), ('float', 2.5), ('bool', True), ('str', 'ab'), ('empty_str', ''),
            ('list', [1, 2]), ('tuple', (1, 2)), ('dict', {'a': 1}), ('set', {1, 2}), ('none', None), ('complex', 1 + 2j),
            ('user', Pt(3)), ('frozenset', frozenset({1})), ('user_with_value_field', Coin(250)),
            ('falsy_user_with_value_field', Coin(0)), ('user_reading_value_field', Token(4)), ('user_only_float', OnlyFloat())]


BINARY = [('+', operator.add), ('-', operator.sub), ('*', operator.mul), ('/', operator.truediv), ('//', operator.floordiv),
          ('%', operator.mod), ('**', operator.pow), ('<<', operator.lshift), ('>>', operator.rshift), ('&', operator.and_),
          ('|', operator.or_), ('^', operator.xor), ('@', operator.matmul), ('divmod', divmod),
          ('==', operator.eq), ('!=', operator.ne), ('<', operator.lt), ('<=', operator.le), ('>', operator.gt),
          ('>=', operator.ge)]
UNARY = [('neg', operator.neg), ('pos', operator.pos), ('abs', abs), ('invert', operator.invert), ('len', len),
         ('bool', bool), ('hash', hash), ('str', str), ('repr', repr), ('format', lambda v: format(v, '')),
         ('int', int), ('float', float), ('complex', complex), ('round', round), ('round2', lambda v: round(v, 1)),
         ('trunc', math.trunc), ('floor', math.floor), ('ceil', math.ceil), ('index', operator.index),
         ('iter', lambda v: list(iter(v))), ('getitem0', lambda v: v[0]), ('getitem_a', lambda v: v['a']),
         ('isinstance', lambda v: (isinstance(v, int), isinstance(v, str), isinstance(v, list), isinstance(v, Pt))),
         ('contains1', lambda v: 1 in v), ('contains_a', lambda v: 'a' in v),
         ('pow_mod', lambda v: pow(v, 4, 5)), ('pow_mod_exponent', lambda v: pow(3, v, 5)), ('int_base16', lambda v: int(v, 16))]


def outcome(fn, *args):
    """(ok, value) with stdout captured"""
    buf = io.StringIO()
    old = sys.stdout
    sys.stdout = buf
    try:
        try:
            v = fn(*args)
            res = ('ok', v)
        except RecursionError:
            res = ('fail', 'RecursionError')
        except Exception as e:
            res = ('fail', type(e).__name__)
    finally:
        sys.stdout = old
    return res, buf.getvalue()


def unwrap(v):
    from pedal.sandbox.result import unwrap_value
    return unwrap_value(v)


def same(a, b):
    a, b = unwrap(a), unwrap(b)
    if a is NotImplemented or b is NotImplemented:
        return a is b
    try:
        if type(a) is not type(b):
            return False
        if isinstance(a, float) and a != a:
            return b != b
        return a == b
    except Exception:
        return repr(a) == repr(b)


def bounded(arg):
    from pedal.sandbox.result import SandboxResult
    failures, samples = [], []
    evaluations = 0
    distinct = set()

    def report(kind, opname, desc, raw, got, printed):
        canon = None
        if printed:
            canon = '%s writes to standard output' % opname
        elif raw[0] == 'ok' and got[0] == 'fail':
            canon = '%s works on the value but fails on the proxy' % opname
        elif raw[0] == 'fail' and got[0] == 'ok':
            canon = '%s fails on the value but succeeds on the proxy' % opname
        elif raw[0] == 'ok' and unwrap(got[1]) is NotImplemented:
            canon = '%s hands back NotImplemented' % opname
        elif raw[0] == 'ok' and not same(raw[1], got[1]):
            canon = '%s gives a different result on the proxy' % opname
        if canon and 'user_reading_value_field' in desc and opname[:2] in ('==', '!='):
            canon += ' (user object whose operator reads other.value)'
        if canon:
            failures.append({'id': kind, 'canon': canon, 'detail': '%s: raw %r, proxy %r%s' % (
                desc, raw, (got[0], repr(got[1])[:60]), ', printed %r' % printed[:40] if printed else '')})

    vals = values()
    for (na, a), (nb, b) in itertools.product(vals, vals):
        for opname, fn in BINARY:
            raw, _ = outcome(fn, a, b)
            for place in ('left', 'right', 'both'):
                x = SandboxResult(a) if place in ('left', 'both') else a
                y = SandboxResult(b) if place in ('right', 'both') else b
                got, printed = outcome(fn, x, y)
                evaluations += 1
                distinct.add((opname, na, nb, place))
                report('binary', opname + (' (proxy on the %s)' % place if place != 'both' else ' (both proxied)'),
                       '%s %s %s [%s]' % (na, opname, nb, place), raw, got, printed)
    for (na, a) in vals:
        for opname, fn in UNARY:
            raw, _ = outcome(fn, a)
            got, printed = outcome(fn, SandboxResult(a))
            evaluations += 1
            distinct.add((opname, na))
            report('unary', opname, '%s(%s)' % (opname, na), raw, got, printed)
        # membership with a proxied needle, and module-level len
        for needle_name, needle in (('int', 1), ('str', 'a')):
            raw, _ = outcome(lambda c, n: n in c, a, needle)
            got, printed = outcome(lambda c, n: n in c, SandboxResult(a), SandboxResult(needle))
            evaluations += 1
            report('unary', 'membership of a proxied item', '%s in %s' % (needle_name, na), raw, got, printed)
        from pedal.sandbox import result as R
        raw, _ = outcome(len, a)
        got, printed = outcome(R.len, a)
        evaluations += 1
        report('unary', 'pedal.sandbox.result.len on a plain value', 'len(%s)' % na, raw, got, printed)
        got, printed = outcome(R.len, SandboxResult(a))
        evaluations += 1
        report('unary', 'pedal.sandbox.result.len on a proxy', 'len(proxy %s)' % na, raw, got, printed)
    # a proxied class as the second argument of isinstance / issubclass
    for cls in (int, str, (int, str), list):
        for obj in (5, 'a', True, [1]):
            raw, _ = outcome(isinstance, obj, cls)
            got, printed = outcome(isinstance, obj, SandboxResult(cls))
            evaluations += 1
            distinct.add(('isinstance_class', repr(cls), repr(obj)))
            report('unary', 'isinstance with a proxied class', 'isinstance(%r, proxy(%r))' % (obj, cls), raw, got, printed)
    # results of consecutive evaluations in ONE real sandbox: each proxy stands for its own result
    from pedal.core.commands import clear_report, contextualize_report
    from pedal.sandbox.sandbox import Sandbox
    clear_report()
    contextualize_report("pass")
    sb = Sandbox()
    sb.run("def same(x):\n    return x\n", filename='answer.py')
    exprs = ['1', 'True', '1.0', '0', 'False', '0.0', '[1]', '[1]', "'1'", '(1,)', '[1]', '{1}', 'None', '1', '1']
    handles = []
    for e in exprs:
        for how in ('evaluate', 'call'):
            want = eval(e)
            r = sb.evaluate(e) if how == 'evaluate' else sb.call('same', want)
            evaluations += 1
            distinct.add(('sequence', how, e))
            got = unwrap(r)
            if type(got) is not type(want) or got != want or str(r) != str(want) or repr(got) != repr(want):
                failures.append({'id': 'sequence', 'canon': 'a result handle stands for another execution\'s value',
                                 'detail': '%s(%s) after %r: handle holds %r (%s), str() gives %r' % (
                                     how, e, exprs[:exprs.index(e)][-2:], got, type(got).__name__, str(r))})
            handles.append((how, e, r))
    lists = [unwrap(r) for how, e, r in handles if e == '[1]' and how == 'evaluate']
    if any(a is b for i, a in enumerate(lists) for b in lists[i + 1:]):
        failures.append({'id': 'sequence', 'canon': 'two evaluations share one result object',
                         'detail': 'evaluate("[1]") twice returned handles on the same list object'})
    samples = [{'operation': '+', 'left': 'int 7', 'right': 'float 2.5', 'placement': 'left'},
               {'operation': 'float()', 'value': 'int 7'}, {'operation': 'in', 'container': "dict {'a': 1}", 'item': "proxy 'a'"}]
    return {'name': 'B-ops(proxy)', 'bound': 'exhaustive: %d binary operations x %d x %d value pairs x 3 proxy placements, '
            '%d unary operations/builtins x %d values (two of them user objects with a `value` attribute of their own); %d consecutive '
            'evaluate()/call() results on one sandbox' % (len(BINARY), len(vals), len(vals), len(UNARY) + 4, len(vals), 2 * len(exprs)),
            'evaluations': evaluations, 'distinct_nontrivial': len(distinct), 'exhaustive': True,
            'rule': 'distinct = (operation, value classes, placement)', 'samples': samples, 'failures': failures}


def ground(arg):
    """existence: every forward operator method of the statement's families has its reflected twin"""
    from pedal.sandbox.result import SandboxResult
    out = []
    for name in ('add', 'sub', 'mul', 'matmul', 'truediv', 'floordiv', 'mod', 'divmod', 'pow', 'lshift', 'rshift', 'and',
                 'xor', 'or'):
        for pre in ('__', '__r'):
            m = pre + name + '__'
            out.append({'id': 'defines[%s]' % m, 'ok': m in SandboxResult.__dict__,
                        'detail': 'SandboxResult %s %s' % ('defines' if m in SandboxResult.__dict__ else 'does not define', m),
                        'witness': {'method': m}, 'canon': 'missing ' + m})
    return out


def replay(case):
    r = bounded({})
    clause = case.get('clause', '')
    target = case.get('target', '')
    meth = target.split('.')[-1]
    for f in r['failures']:
        return {'confirmed': True, 'canon': f['canon'], 'input': f['detail'], 'observed': f['detail']}
    return {'confirmed': False}
