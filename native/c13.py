"""C13 native side.

ground (finite, complete by evaluation): for EVERY attribute that Report.__init__ assigns, a dirtied
report after clear() is observationally a fresh Report() (class_hooks exempt, as documented).
bounded B-history: every ordered pair (A then B) of a corpus of (instructor script, submission)
gradings run in this one process; B's result must equal the result of grading B first in a fresh
interpreter (subprocess); grading the same pair twice gives identical results."""
import json
import os
import subprocess
import sys
import io

CORPUS = {
    'plain_correct': ("from pedal import *\nverify()\nrun()\nif not get_output():\n    gently('print something', label='no_out')\nset_success()\n",
                      "print('hi')\n"),
    'syntax_error': ("from pedal import *\nverify()\nrun()\nset_success()\n", "x = (\n"),
    'runtime_error': ("from pedal import *\nverify()\nstudent = run()\nset_success()\n", "print('a')\n1/0\n"),
    'suppress_runtime': ("from pedal import *\nsuppress('runtime')\nverify()\nrun()\ngently('always', label='g', score='+10%')\n", "1/0\n"),
    'override_feedback': ("from pedal import *\nfrom pedal.core.commands import gently as G\nG.override(title='OVERRIDDEN TITLE', muted=False)\nverify()\nrun()\ngently('look', label='g2')\n",
                          "x = 1\n"),
    'override_base_and_sub': ("from pedal import *\nfrom pedal.core.feedback import FeedbackResponse\nFeedbackResponse.override(priority='low')\nexplain.override(priority='high')\nverify()\nexplain('why', label='e')\n",
                              "x = 2\n"),
    'formatter': ("from pedal import *\nfrom pedal.core.formatting import Formatter\nclass F(Formatter):\n    def name(self, x):\n        return '<<' + str(x) + '>>'\nset_formatter(F)\nfrom pedal.tifa import tifa_analysis\nverify()\ntifa_analysis()\nrun()\nprevent_function_call('print')\n",
                  "print(y)\n"),
    'sections': ("from pedal import *\nfrom pedal.source.sections import *\nseparate_into_sections(independent=True)\nnext_section()\nverify()\nrun()\nnext_section()\nverify()\nexplain('sec', label='s')\n",
                 "a = 0\n##### Part 1\nprint(a)\n##### Part 2\nprint('two')\n"),
    # a module whose import has a visible side effect (it prints): every grading imports it afresh
    'import_side_effect': ("from pedal import *\nverify()\nrun()\nif 'Beautiful is better than ugly.' not in get_output():\n    gently('the import printed nothing', label='no_zen')\nset_success()\n",
                           "import this\nprint('after')\n"),
    'mock_and_input': ("from pedal import *\nverify()\nset_input(['5', '6'])\nstudent = run()\nassert_equal(get_output(), ['p', '5'])\nset_success()\n",
                       "v = input('p')\nprint(v)\n"),
    'crash_in_script': ("from pedal import *\nverify()\nrun()\nexplain('before crash', label='b4')\nraise RuntimeError('instructor bug')\n",
                        "print(1)\n"),
    'pools': ("from pedal import *\nfrom pedal.core.report import MAIN_REPORT\nMAIN_REPORT.set_pools(['A'])\nexplain.override_for_pool('A', title='POOL TITLE')\nverify()\nrun()\nexplain('pooled', label='p')\n",
              "x = 3\n"),
    'assertions': ("from pedal import *\nverify()\nrun()\nassert_equal(call('f', 2), 4)\nassert_less(call('f', 1), 1)\nset_success()\n",
                   "def f(x):\n    return x * 2\n"),
    'tifa_issue': ("from pedal import *\nfrom pedal.tifa import tifa_analysis\nverify()\ntifa_analysis()\nrun()\nset_success()\n", "print(undefined_variable)\nunused = 1\n"),
    'module_attr_static': ("from pedal import *\nfrom pedal.tifa import tifa_analysis\nverify()\ntifa_analysis()\nrun()\nset_success()\n",
                           "import math\nif input('short pi?') == 'yes':\n    math.pi = '3.14'\nprint('pi is', math.pi)\n"),
    'module_attr_use': ("from pedal import *\nfrom pedal.tifa import tifa_analysis\nverify()\ntifa_analysis()\nrun()\nset_success()\n",
                        "import math\narea = math.pi * 2 + 1\nprint(area)\n"),
    'override_twice': ("from pedal import *\nfrom pedal.tifa.feedbacks import initialization_problem\n"
                       "initialization_problem.override(title='Variable Problem')\n"
                       "initialization_problem.override(title='Use Before Assignment')\nfrom pedal.tifa import tifa_analysis\nverify()\ntifa_analysis()\nrun()\n",
                       "print(never_assigned)\n"),
    'func_attr_write': ("from pedal import *\nfrom pedal.tifa import tifa_analysis\nverify()\ntifa_analysis()\nrun()\nset_success()\n",
                        "def visit(place):\n    visit.calls = visit.calls + 1\n    return place\nvisit.calls = 0\nvisit('home')\nprint(visit.calls)\n"),
    'func_attr_read': ("from pedal import *\nfrom pedal.tifa import tifa_analysis\nverify()\ntifa_analysis()\nrun()\nset_success()\n",
                       "def greet(name):\n    return 'Hello ' + name\nprint(greet('Ada'))\nprint(greet.calls + 1)\n"),
    'tifa_default_title': ("from pedal import *\nfrom pedal.tifa import tifa_analysis\nverify()\ntifa_analysis()\nrun()\n", "print(never_assigned)\n"),
    'helper_with_state': ("from pedal import *\nverify()\nrun()\nassert_equal(get_output(), ['2'])\nset_success()\n",
                          "import helper\nhelper.stock('apple')\nprint(helper.stock('pear'))\n",
                          {'helper.py': "items = []\ndef stock(name):\n    items.append(name)\n    return len(items)\n"}),
    'compliment_partial': ("from pedal import *\nverify()\nrun()\ncompliment('nice', score='+25%')\ngive_partial('10%')\n", "x = 4\n"),
}


# entries whose student code really rebinds an attribute of a library module of the grading process: they are run only
# against their observer, and the harness restores the module afterwards so that no other pair is affected
POLLUTERS = {
    'question_pool': ("from pedal import *\nfrom pedal.questions.setup import set_seed\nfrom pedal.questions.pool import Pool\nset_seed([0, 1])\n"
                      "p = Pool('p', choices=['first', 'second'])\ngently('chosen ' + str(p.choose()), label='pool_choice')\n", "x = 1\n"),
    'module_attr_runtime': ("from pedal import *\nverify()\nrun()\nset_success()\n", "import math\nmath.pi = '3.14'\nprint(math.pi)\n"),
}
OBSERVERS = {'module_attr_runtime': 'module_attr_use', 'question_pool': 'question_pool'}


def _restore_interpreter():
    import math
    math.pi = 3.141592653589793
    from pedal.questions.pool import Pool
    Pool._POOL_TRACKER = 0


def grade(name):
    """grade one corpus entry in THIS process; returns the observable result"""
    entry = CORPUS[name] if name in CORPUS else POLLUTERS[name]
    script, code = entry[0], entry[1]
    extra_files = entry[2] if len(entry) > 2 else {}
    from pedal.core.environment import Environment
    from pedal.core.report import MAIN_REPORT
    from pedal.resolvers.simple import resolve
    out = {}
    real_stdout = sys.stdout
    sys.stdout = io.StringIO()
    try:
        Environment(files=dict({'answer.py': code}, **extra_files), main_file='answer.py', main_code=code)
        try:
            exec(compile(script, 'instructor.py', 'exec'), {'__name__': '__main__'})
        except BaseException as e:
            out['script_exception'] = type(e).__name__
        try:
            final = resolve()
            out.update({'label': final.label, 'title': final.title, 'message': final.message,
                        'correct': final.correct, 'score': final.score})
        except BaseException as e:
            out['resolve_exception'] = '%s: %s' % (type(e).__name__, e)
        try:
            from pedal.sandbox.commands import get_sandbox
            sb = get_sandbox()
            out['output'] = list(sb.output)
            out['raw_output'] = sb.raw_output
        except BaseException as e:
            out['sandbox_exception'] = type(e).__name__
    finally:
        sys.stdout = real_stdout
    return out


def fresh(name):
    env = dict(os.environ, PYTHONPATH=os.environ.get('PEDAL_REPO', '/repo'), PYTHONHASHSEED='0')
    here = os.path.dirname(os.path.abspath(__file__))
    p = subprocess.run([sys.executable, '-c',
                        "import sys, json; sys.path.insert(0, %r); import c13; print('RESULT' + json.dumps(c13.grade(%r), default=repr))" % (here, name)],
                       capture_output=True, text=True, env=env, timeout=120)
    for line in p.stdout.splitlines():
        if line.startswith('RESULT'):
            return json.loads(line[6:])
    raise RuntimeError('fresh grading of %s failed: %s' % (name, p.stderr[-500:]))


def bounded(arg):
    names = list(CORPUS)
    if arg.get('tier') == 'quick':
        firsts = names
    else:
        firsts = names
    baseline = {n: fresh(n) for n in names + [o for o in OBSERVERS.values() if o not in names]}
    failures, samples = [], []
    evaluations = 0
    distinct = set()
    norm = lambda d: json.loads(json.dumps(d, default=repr))
    for a in firsts:
        for b in names:
            evaluations += 1
            distinct.add((a, b))
            try:
                grade(a)
            except BaseException as e:
                failures.append({'id': 'history', 'canon': 'grading raised', 'detail': '%s raised %r' % (a, e)})
                continue
            try:
                got = norm(grade(b))
            except BaseException as e:
                failures.append({'id': 'history', 'canon': 'grading raised', 'detail': '%s after %s raised %r' % (b, a, e)})
                continue
            if got != baseline[b]:
                diff = {k: (got.get(k), baseline[b].get(k)) for k in set(got) | set(baseline[b]) if got.get(k) != baseline[b].get(k)}
                failures.append({'id': 'history', 'canon': 'result depends on the earlier grading (%s)' % a,
                                 'detail': 'grading %s after %s differs from a fresh interpreter: %r' % (b, a, diff)})
    for a, b in OBSERVERS.items():
        evaluations += 1
        distinct.add((a, b))
        try:
            grade(a)
            got = norm(grade(b))
        except BaseException as e:
            failures.append({'id': 'history', 'canon': 'grading raised', 'detail': '%s after %s raised %r' % (b, a, e)})
            got = None
        finally:
            _restore_interpreter()
        if got is not None and got != baseline[b]:
            diff = {k: (got.get(k), baseline[b].get(k)) for k in set(got) | set(baseline[b]) if got.get(k) != baseline[b].get(k)}
            failures.append({'id': 'history', 'canon': 'result depends on the earlier grading (%s)' % a,
                             'detail': 'grading %s after %s differs from a fresh interpreter: %r' % (b, a, diff)})
    # the command-line pipeline (Bundle.run_ics_bundle with the standard environment): a script sees only its own globals
    bf, bn = bundle_pairs()
    failures += bf
    evaluations += bn
    distinct |= set(('bundle', i) for i in range(bn))
    seq_failures, seq_n = override_sequences()
    failures += seq_failures
    evaluations += seq_n
    distinct |= set(('override_sequence', i) for i in range(seq_n))
    samples = [{'first': names[0], 'second': names[1], 'expected_second': baseline[names[1]]}]
    return {'name': 'B-history', 'bound': 'every sequence of <= 3 override() calls on a base and a derived feedback class (2 fields, 2 values) followed by clear(); all %d ordered pairs of a corpus of %d (script, submission) gradings exercising each leak '
            'channel (override of a class and a subclass, suppress, formatter, mocked input, sections, crash, pools, syntax and '
            'runtime errors); baseline = each entry graded first in a fresh interpreter' % (len(names) ** 2, len(names)),
            'evaluations': evaluations, 'distinct_nontrivial': len(distinct), 'exhaustive': True,
            'rule': 'distinct = (earlier entry, later entry)', 'samples': samples, 'failures': failures}


BUNDLE_SCRIPTS = {
    'defines_a_global': "from pedal import *\nSTRICT_MODE = True\nhelper_limit = 3\nif STRICT_MODE:\n    gently('strict', label='strict')\n",
    'reads_a_global_it_never_defined': "from pedal import *\nif globals().get('STRICT_MODE'):\n    gently('leaked strictness', label='leak')\n"
                                       "try:\n    helper_limit\n    gently('leaked name', label='leak2')\nexcept NameError:\n    pass\n",
    'plain': "from pedal import *\nrun()\nset_success()\n",
}


def bundle_grade(name):
    import argparse
    import io
    from pedal.command_line.modes import Bundle
    from pedal.core.submission import Submission
    real = sys.stdout
    sys.stdout = io.StringIO()
    try:
        submission = Submission(files={'answer.py': "print('hi')\n"}, main_file='answer.py', instructor_file='grader.py')
        bundle = Bundle(argparse.Namespace(threaded=False, resolver='resolve'), BUNDLE_SCRIPTS[name], submission)
        bundle.environment = 'standard'
        bundle.run_ics_bundle()
        res = bundle.result.resolution
        return None if res is None else [res.label, res.title, res.message, res.correct, res.score]
    except BaseException as e:
        return ['raised', repr(e)]
    finally:
        sys.stdout = real


def bundle_fresh(name):
    env = dict(os.environ, PYTHONPATH=os.environ.get('PEDAL_REPO', '/repo'), PYTHONHASHSEED='0')
    here = os.path.dirname(os.path.abspath(__file__))
    p = subprocess.run([sys.executable, '-c',
                        "import sys, json; sys.path.insert(0, %r); import c13; print('RESULT' + json.dumps(c13.bundle_grade(%r), default=repr))" % (here, name)],
                       capture_output=True, text=True, env=env, timeout=120)
    for line in p.stdout.splitlines():
        if line.startswith('RESULT'):
            return json.loads(line[6:])
    raise RuntimeError('fresh bundle grading of %s failed: %s' % (name, p.stderr[-500:]))


def bundle_pairs():
    failures = []
    n = 0
    base = {k: bundle_fresh(k) for k in BUNDLE_SCRIPTS}
    for a in BUNDLE_SCRIPTS:
        for b in BUNDLE_SCRIPTS:
            n += 1
            bundle_grade(a)
            got = json.loads(json.dumps(bundle_grade(b), default=repr))
            if got != base[b]:
                failures.append({'id': 'history', 'canon': 'command-line grading depends on the earlier script (%s)' % a,
                                 'detail': 'Bundle grading of %s after %s: %r, in a fresh interpreter %r' % (b, a, got, base[b])})
    return failures, n


def override_sequences():
    """every sequence of up to three override() calls over {Base, Sub} x {title, message_template} x {two values},
    then clear(): every class attribute is what it was (own value or inherited)"""
    import itertools
    from pedal.core.report import Report
    from pedal.core.feedback import Feedback
    failures = []
    ops = list(itertools.product(['Base', 'Sub'], ['title', 'message_template'], ['v1', 'v2']))
    n = 0
    for length in (1, 2, 3):
        for seq in itertools.product(ops, repeat=length):
            n += 1

            class Base(Feedback):
                title = 'base title'
                message_template = 'base message'

            class Sub(Base):
                title = 'sub title'
            classes = {'Base': Base, 'Sub': Sub}
            before = {(c, f): (f in classes[c].__dict__, getattr(classes[c], f)) for c in classes for f in ('title', 'message_template')}
            r = Report()
            for c, f, v in seq:
                classes[c].override(report=r, **{f: v})
            r.clear()
            after = {(c, f): (f in classes[c].__dict__, getattr(classes[c], f)) for c in classes for f in ('title', 'message_template')}
            if after != before and len(failures) < 10:
                diff = {k: (before[k], after[k]) for k in before if before[k] != after[k]}
                failures.append({'id': 'history', 'canon': 'override() sequence not undone by clear()',
                                 'detail': 'after %r and clear(): (own attribute?, value) was/is %r' % (seq, diff)})
    return failures, n


def _dirty(value):
    if isinstance(value, list):
        value.append('dirt')
    elif isinstance(value, dict):
        value['dirt'] = ['dirt']
    elif isinstance(value, set):
        value.add('dirt')
    return value


def ground(arg):
    from pedal.core.report import Report
    from pedal.core.submission import Submission
    from pedal.core.formatting import Formatter
    from pedal.core.feedback import Feedback
    out = []
    fresh_report = Report()
    for attr, fresh_value in sorted(vars(fresh_report).items()):
        if attr == 'class_hooks':
            continue
        r = Report()
        cur = getattr(r, attr)
        if attr == 'overridden_feedbacks':
            class Dirty(Feedback):
                title = 't0'
            Dirty.override(report=r, title='t1')
        elif isinstance(cur, (list, dict, set)):
            _dirty(cur)
        elif attr == 'format':
            class Other(Formatter):
                pass
            r.format = Other()
        elif attr == 'submission':
            r.submission = Submission(main_code='x')
        else:
            setattr(r, attr, 'dirt')
        if attr == 'pools':
            r.set_pools(['A', 'B'])
        r.clear()
        after = getattr(r, attr)
        if isinstance(fresh_value, (list, dict, set)):
            ok = type(after) is type(fresh_value) and len(after) == 0
        elif attr == 'format':
            ok = type(after) is Formatter
        else:
            ok = after == fresh_value
        out.append({'id': 'clear_resets[%s]' % attr, 'ok': ok,
                    'detail': 'after clear() report.%s is %r, a fresh report has %r' % (attr, after, fresh_value),
                    'witness': {'attribute': attr}, 'canon': 'clear() does not reset %s' % attr})
    # class-level state that a grading can change: pool overrides
    class K(Feedback):
        pass
    r = Report()
    K.override_for_pool('A', title='pool')
    r.clear()
    out.append({'id': 'clear_resets[Feedback._pools]', 'ok': not Feedback._pools,
                'detail': 'after override_for_pool(...) and clear(), Feedback._pools is %r' % (Feedback._pools,),
                'witness': {'attribute': 'Feedback._pools'}, 'canon': 'clear() does not reset Feedback._pools'})
    Feedback._pools.clear()
    return out


def replay(case):
    for item in ground({}):
        if not item['ok']:
            return {'confirmed': True, 'canon': item['canon'], 'input': item['witness'], 'observed': item['detail']}
    return {'confirmed': False}
