"""C01 / C02 / C03 native side (runs under /venv/bin/python on the real pedal):

* ground: the documented category order (typed from the C01 statement) equals the table the
  resolver sorts by, and the numbered list in docsrc/developers/ffs.rst;
* bounded stand-in B-resolve: random multisets of real Feedback objects and suppressions on a
  fresh Report, resolved by the real resolver, compared with a reference resolver written from
  the C01-C03 statements;
* replay: solver counterexamples of merge / finalize / by_priority / Score rebuilt as real objects.
"""
import itertools
import os
import random
import re

DOC_ORDER = ["highest", "syntax", "mistakes", "instructor", "algorithmic", "runtime", "student",
             "specification", "positive", "instructions", "uncategorized", "lowest"]
ALIASES = {"parser": "syntax", "verifier": "syntax", "instructor": "instructor", "analyzer": "algorithmic"}
REPO = os.environ.get('PEDAL_REPO', '/repo')


def ground(arg):
    from pedal.core.feedback import DEFAULT_CATEGORY_PRIORITY
    from pedal.core.feedback_category import FeedbackCategory
    out = [{'id': 'category_order_is_documented_order', 'ok': list(DEFAULT_CATEGORY_PRIORITY) == DOC_ORDER,
            'detail': 'resolver order %r; documented order %r' % (DEFAULT_CATEGORY_PRIORITY, DOC_ORDER),
            'witness': {}},
           {'id': 'aliases', 'ok': dict(FeedbackCategory.ALIASES) == ALIASES,
            'detail': 'aliases %r' % (FeedbackCategory.ALIASES,), 'witness': {}}]
    # numbered list in the developer documentation
    path = os.path.join(REPO, 'docsrc', 'developers', 'ffs.rst')
    try:
        text = open(path).read()
        from pedal.core.feedback_category import FeedbackCategory
        names = []
        for n in re.findall(r'^\s*\d+\.\s+``([^`]+)``', text, re.M):
            n = n.strip('"')
            if n.startswith('Feedback.CATEGORIES.'):
                n = getattr(FeedbackCategory, n.split('.')[-1], n)
            names.append(n)
        ok = names == DOC_ORDER
        out.append({'id': 'ffs_rst_list_order', 'ok': ok, 'detail': 'ffs.rst lists %r' % (names,), 'witness': {}})
    except OSError as e:
        out.append({'id': 'ffs_rst_list_order', 'ok': True, 'detail': 'ffs.rst not present: %s' % e, 'witness': {}})
    return out


# ---------------------------------------------------------------------------------------------
# reference resolver, from the statements

def rank(c):
    return DOC_ORDER.index(c) if c in DOC_ORDER else 12


def key(spec):
    cat = 'uncategorized' if spec['category'] is None else spec['category'].lower()
    pr = 'medium' if spec['priority'] is None else ALIASES.get(spec['priority'].lower(), spec['priority'].lower())
    if pr in DOC_ORDER:
        return rank(pr) + 0.5
    shift = {'high': 0.3, 'medium': 0.5, 'low': 0.7}.get(pr, 0.1)
    return rank(cat) + shift


def fields_match(fieldset, fields):
    return all(fields.get(k) == v for k, v in fieldset.items())


def suppressed(spec, supps):
    cat = 'uncategorized' if spec['category'] is None else spec['category'].lower()
    lab = spec['label']
    for s in supps:
        scat = s.get('category')
        if scat is not None:
            scat = ALIASES.get(scat.lower(), scat.lower())
            if cat != scat:
                continue
            if s.get('label', True) is True:
                return True
            if s['label'].lower() == lab.lower() and fields_match(s.get('fields') or {}, spec['fields']):
                return True
        else:
            if s.get('label', True) == lab and fields_match(s.get('fields') or {}, spec['fields']):
                return True
    return False


def signed(score):
    from fractions import Fraction
    if isinstance(score, str):
        m = re.fullmatch(r'([+\-])?(\d+(?:\.\d+)?(?:e-?\d+)?)(%)?', score)
        v = Fraction(m.group(2)) if 'e' not in m.group(2) else Fraction(float(m.group(2)))
        if m.group(3):
            v /= 100
        return -v if m.group(1) == '-' else v
    return Fraction(repr(score)) if 'e' not in repr(score) else Fraction(score)


def signed_float(score):
    if isinstance(score, str):
        m = re.fullmatch(r'([+\-])?(\d+(?:\.\d+)?(?:e-?\d+)?)(%)?', score)
        v = float(m.group(2))
        if m.group(3):
            v /= 100.0
        return -v if m.group(1) == '-' else v
    return score


def reference(specs, supps):
    hidden = any(s.get('category') in ('correct', 'success') for s in supps)
    eligible = [(key(s), i, s) for i, s in enumerate(specs)
                if s['triggered'] and not s['muted'] and s['kind'] != 'Compliment' and not suppressed(s, supps)]
    correct = all(bool(s['correct']) for _, _, s in eligible)
    from fractions import Fraction
    total = Fraction(0)
    for s in specs:
        if suppressed(s, supps) or s['unscored'] or s['score'] is None:
            continue
        counts = (s['triggered'] and s['valence'] != -1) or ((not s['triggered']) and s['valence'] == -1)
        if counts:
            total += signed(s['score'])
    if not eligible:
        if hidden:
            return {'label': 'set_correct_no_errors', 'title': 'No Errors', 'message': 'No errors reported.',
                    'correct': True, 'score': total}
        return {'label': 'set_correct_no_errors', 'title': 'Complete', 'message': 'Great work!', 'correct': True,
                'score': 1}
    eligible.sort(key=lambda t: (t[0], t[1]))
    w = eligible[0][2]
    return {'label': w['label'], 'title': w['title'] or w['label'], 'message': w['message'], 'correct': correct,
            'score': total}


CATS = DOC_ORDER + ['style', 'system', 'complete', 'Syntax', 'RUNTIME', 'custom', None]
PRIOS = [None, None, None, 'high', 'low', 'medium', 'HIGH', 'parser', 'analyzer', 'verifier', 'syntax', 'lowest',
         'highest', 'instructor', 'weird']
KINDS = [None, 'Mistake', 'Compliment', 'Instructional', 'Hint', 'Result']
SCORES = [None, None, 1, 0.5, 0.25, '+10%', '10%', '-5%', '+0.2', '-0.1', 0.1, 2, '50%', 1e-05, '2.5%', '0.4%',
          '+12.5%', '-0.5%', 0.125, '33.3%']
LABELS = ['a', 'b', 'c', 'A', 'set_correct_no_errors', 'x_y']
FIELDSETS = [{}, {'k': 1}, {'k': 2}, {'k': 1, 'j': 'v'}, {'name': 'x'}, {'k': 2, 'j': 'v'}, {'k': 1, 'j': 'w'},
             {'j': 'v', 'k': 1}]


def random_case(rnd, n_max=5):
    specs = []
    for i in range(rnd.randint(0, n_max)):
        specs.append({'label': rnd.choice(LABELS), 'category': rnd.choice(CATS), 'priority': rnd.choice(PRIOS),
                      'kind': rnd.choice(KINDS), 'muted': rnd.choice([None, False, False, True]),
                      'unscored': rnd.choice([None, False, False, True]),
                      'triggered': rnd.choice([True, True, False]),
                      'valence': rnd.choice([None, -1, -1, 0, 1]), 'score': rnd.choice(SCORES + [None] * 8),
                      'correct': rnd.choice([None, False, True, True, True]),
                      'title': rnd.choice([None, 'T%d' % i]), 'message': rnd.choice(['m%d' % i, 'm%d' % i, 'm%d' % i, '']),
                      'else_message': rnd.choice([None, None, 'else%d' % i]),
                      'fields': dict(rnd.choice(FIELDSETS))})
    supps = []
    for _ in range(rnd.choice([0, 0, 0, 1, 1, 2])):
        kind = rnd.choice(['cat', 'cat+label', 'cat+label+fields', 'label', 'label+fields', 'hide'])
        if kind == 'hide':
            supps.append({'category': rnd.choice(['correct', 'success'])})
            continue
        s = {}
        if kind.startswith('cat'):
            s['category'] = rnd.choice([c for c in CATS if c] + ['parser', 'analyzer'])
        if 'label' in kind:
            s['label'] = rnd.choice(LABELS)
        if 'fields' in kind:
            s['fields'] = dict(rnd.choice(FIELDSETS[1:]))
        supps.append(s)
    return specs, supps


def build_and_resolve(specs, supps, resolver='simple'):
    from pedal.core.report import Report
    from pedal.core.feedback import Feedback
    report = Report()
    objs = []
    for s in specs:
        kw = {k: s[k] for k in ('label', 'category', 'priority', 'kind', 'muted', 'unscored', 'valence', 'score',
                                'correct', 'title', 'message', 'else_message')}
        objs.append(Feedback(report=report, activate=s['triggered'], fields=dict(s['fields']), **kw))
        if s.get('strip_message'):
            # a feedback class or a pool override can leave a triggered feedback without any text of its own
            objs[-1].message = None
    for s in supps:
        report.suppress(s.get('category'), s.get('label', True), s.get('fields'))
    if resolver == 'simple':
        from pedal.resolvers.simple import resolve
    else:
        from pedal.resolvers.full import resolve
    final = resolve(report)
    return final


def classify(specs, supps):
    feats = []
    if any(s['category'] is None for s in specs):
        feats.append('category=None')
    if any('label' in s and 'category' not in s and s.get('fields') for s in supps):
        feats.append('label+fields suppression')
    if any(s['score'] == 1e-05 for s in specs):
        feats.append('score=1e-05')
    if any(s['label'] == 'set_correct_no_errors' and (s['category'] or '').lower() == 'complete' for s in specs):
        feats.append('label=set_correct_no_errors,category=complete')
    return ';'.join(feats) or 'general'


def compare(final, want, prop):
    """-> list of differing aspects relevant to `prop`"""
    diffs = []
    if prop in ('C01', 'all'):
        for k in ('label', 'title', 'message'):
            if getattr(final, k) != want[k]:
                diffs.append('%s: got %r want %r' % (k, getattr(final, k), want[k]))
    if prop in ('C02', 'all'):
        if final.correct is not want['correct'] or final.to_json()['correct'] is not want['correct']:
            diffs.append('correct: got %r want %r' % (final.correct, want['correct']))
        if final.success is not final.correct:
            diffs.append('success != correct')
    if prop in ('C03', 'all'):
        w = want['score']
        # exact rational sum; a float sum that lands within 1e-9 of a rounding boundary may round either way
        ok = final.score in (round(float(w) - 1e-9, 2), round(float(w) + 1e-9, 2), round(float(w), 2)) \
            if not isinstance(w, int) else float(final.score) == float(w)
        if not ok:
            diffs.append('score: got %r want %r' % (final.score, float(w)))
    return diffs


def ref_parse(text):
    """reading of a score string, typed from the C03 statement: optional '!' marks (odd = inverted),
    optional sign, a decimal number, optional '%' (= /100)"""
    m = re.fullmatch(r'(!*)([+\-])?(\d+(?:\.\d*)?|\.\d+)(%)?', text)
    if not m:
        return None
    v = float(m.group(3))
    if m.group(4):
        v = v / 100.0
    return (len(m.group(1)) % 2 == 1, m.group(2), v)


def bounded_score(arg):
    """B-score: Score.parse / to_percent_string / add_to_current on every string of a small alphabet"""
    from pedal.core.scoring import Score
    L = 4 if arg.get('tier') == 'quick' else 6
    alphabet = '!+-05.%2'
    failures, samples = [], []
    evaluations = 0
    distinct = set()
    for n in range(1, L + 1):
        for tup in itertools.product(alphabet, repeat=n):
            text = ''.join(tup)
            want = ref_parse(text)
            if want is None:
                continue
            evaluations += 1
            distinct.add((want[0], want[1], '%' in text, '.' in text))
            try:
                sc = Score.parse(text)
                got = (sc.invert, sc.operator, sc.value)
            except Exception as e:
                got = ('raised', type(e).__name__, None)
            ok = got[0] == want[0] and got[1] == want[1] and got[2] is not None and abs(got[2] - want[2]) < 1e-12
            if ok:
                # the axioms the merge/finalize contracts assume about '!' and about totals
                inv = Score.parse('!' + text)
                ok = inv.invert == (not want[0]) and inv.operator == want[1] and abs(inv.value - want[2]) < 1e-12
                cur = sc.add_to_current(1.0)
                exp = 1.0 + (0 if want[0] else (-want[2] if want[1] == '-' else want[2]))
                ok = ok and abs(cur - exp) < 1e-12
            if len(samples) < 3 and '%' in text:
                samples.append({'text': text, 'reading': want})
            if not ok:
                failures.append({'id': 'score_parse', 'canon': 'Score.parse(%r)' % text if len(failures) < 3 else 'Score.parse',
                                 'detail': 'Score.parse(%r) read as %r, statement reads it as %r' % (text, got, want),
                                 'text': text})
    return {'name': 'B-score', 'bound': 'every string of length <= %d over %r that the statement\'s score grammar accepts' % (L, alphabet),
            'evaluations': evaluations, 'distinct_nontrivial': len(distinct), 'exhaustive': True,
            'rule': 'distinct = (inverted, operator, percent?, decimal point?)', 'samples': samples, 'failures': failures}


def bounded(arg):
    if arg.get('prop') == 'C03':
        return [bounded_resolve(arg), bounded_score(arg)]
    return bounded_resolve(arg)


def bounded_resolve(arg):
    prop = arg.get('prop', 'all')
    n = 400 if arg.get('tier') == 'quick' else 6000
    seed = arg.get('seed', 0)
    rnd = random.Random(seed * 7919 + 13)
    failures, samples = [], []
    distinct = set()
    evaluations = 0
    for i in range(n):
        specs, supps = random_case(rnd)
        evaluations += 1
        sig = (len(specs), len(supps), tuple(sorted(set((s['category'] or 'None').lower() for s in specs))))
        if specs:
            distinct.add(sig)
        want = reference(specs, supps)
        try:
            final = build_and_resolve(specs, supps)
            diffs = compare(final, want, prop)
        except Exception as e:
            diffs = ['resolve raised %s: %s' % (type(e).__name__, e)] if prop in ('C01', 'all') else []
        if len(samples) < 2 and specs:
            samples.append({'feedback': specs, 'suppressions': supps, 'expected': want})
        if diffs:
            cls = classify(specs, supps)
            failures.append({'id': 'resolve', 'canon': cls, 'detail': '; '.join(diffs),
                             'feedback': specs, 'suppressions': supps, 'expected': want})
    if prop in ('C02', 'all'):
        # triggered feedback that carries no message of its own still decides correctness
        base = {'label': 'a', 'category': 'instructor', 'priority': None, 'kind': None, 'muted': None, 'unscored': None,
                'triggered': True, 'valence': None, 'score': None, 'correct': None, 'title': None, 'message': 'm',
                'else_message': None, 'fields': {}}
        for cat in ('instructor', 'runtime', 'syntax', 'algorithmic', 'specification'):
            for corr in (None, False, True):
                for extra in (None, {'label': 'ok', 'category': 'complete', 'correct': True, 'message': 'Done'},
                              {'label': 'b', 'category': 'instructor', 'correct': False, 'triggered': False}):
                    specs = [dict(base, category=cat, correct=corr, strip_message=True)]
                    if extra:
                        specs.append(dict(base, **extra))
                    evaluations += 1
                    distinct.add(('no-message', cat, corr, bool(extra)))
                    want = reference(specs, [])
                    try:
                        diffs = compare(build_and_resolve(specs, []), want, 'C02')
                    except Exception as e:
                        diffs = []
                    if diffs:
                        failures.append({'id': 'resolve', 'canon': 'triggered feedback without a message',
                                         'detail': '; '.join(diffs), 'feedback': specs, 'suppressions': [],
                                         'expected': {'correct': want['correct']}})
    if prop in ('C02', 'all'):
        # a score string the resolver cannot read: resolving may fail, but it must not report the submission correct
        for bad in ('=0', '^50%', '_5', '1.2.3', '+ 5%', 'ten'):
            for extra in (None, {'label': 'ok', 'category': 'complete', 'correct': True, 'message': 'Done', 'score': None}):
                specs = [dict(base, score=bad)] + ([dict(base, **extra)] if extra else [])
                evaluations += 1
                distinct.add(('unreadable-score', bad, bool(extra)))
                try:
                    final = build_and_resolve(specs, [])
                except Exception:
                    continue
                if final is not None and final.correct:
                    failures.append({'id': 'resolve', 'canon': 'triggered feedback with an unreadable score',
                                     'detail': 'correct: got True want False (or no result at all)', 'feedback': specs,
                                     'suppressions': [], 'expected': {'correct': False}})
    return {'name': 'B-resolve', 'bound': '%d random reports (seed %d): 0-5 real Feedback objects over %d categories, '
            '%d priorities, kinds, muted/unscored flags, activation, valence, %d score forms, 0-2 suppressions of every '
            'form; simple resolver against a reference resolver typed from the C01-C03 statements; for C02 also 45 reports whose '
            'triggered feedback has no message of its own and 12 whose triggered feedback carries an unreadable score string' % (
                n, seed, len(CATS), len(PRIOS), len(SCORES)),
            'evaluations': evaluations, 'distinct_nontrivial': len(distinct),
            'rule': 'distinct = (number of feedback, number of suppressions, set of categories); trivial = empty report',
            'samples': samples, 'failures': failures}


# ---------------------------------------------------------------------------------------------
# replay of solver counterexamples

def _mk_feedback(report, **kw):
    from pedal.core.feedback import Feedback
    return Feedback(report=report, **kw)


def replay(case):
    target, clause = case['target'], case['clause']
    w = case.get('witness') or {}
    where = case.get('where') or ''
    if target.endswith('FinalFeedback.merge'):
        return replay_merge(case, where)
    if target.endswith('FinalFeedback.finalize'):
        return replay_finalize(case, w)
    if target.endswith(':by_priority') or target.endswith(':priority_offset'):
        return replay_priority(case, w)
    if target.endswith('add_to_current'):
        return replay_add_to_current(case, w)
    if target.endswith('combine_scores'):
        return replay_combine(case, w)
    return {'confirmed': False, 'note': 'no replay builder for %s' % target}


def replay_merge(case, where):
    """search the structured input classes of merge for one that shows the failed clause"""
    from pedal.core.report import Report
    from pedal.core.final_feedback import set_correct_no_errors
    clause = case['clause']
    tried = 0
    cats = [None, 'runtime', 'Syntax', 'complete', 'custom']
    inner = clause.startswith(('loop', 'cut', 'frame', 'call')) or case.get('undecided')
    top = ['considered', 'suppressed_skipped', 'message_installed', 'message_kept', 'correct_updated', 'correct_kept',
           'success_is_correct']
    for cat, label, fields, supp, muted, kind, trig, score, valence, correct, msg in itertools.product(
            cats, ['a', 'A'], [{}, {'k': 1}, {'k': 2, 'j': 'v'}, {'k': 1, 'j': 'w'}],
            [None, ('cat',), ('cat', 'a'), ('cat', 'a', {'k': 1}), (None, 'a'), (None, 'a', {'k': 1}), (None, 'a', {'k': 2}),
             (None, 'a', {'k': 1, 'j': 'v'}), ('cat', 'a', {'k': 1, 'j': 'v'})],
            [None, True], [None, 'Compliment', 'Instructional'], [True, False], [None, '+10%'], [None, -1],
            [None, True, False], ['m', '']):
        report = Report()
        if supp is not None:
            scat = (cat or 'runtime') if supp[0] == 'cat' else None
            report.suppress(scat, *(supp[1:] if len(supp) > 1 else (True,)))
        try:
            fb = _mk_feedback(report, label=label, category=cat, message=msg, fields=dict(fields), muted=muted,
                              kind=kind, activate=trig, score=score, valence=valence, correct=correct)
        except Exception:
            continue
        final = set_correct_no_errors(report)
        before = (final.message, final.label, final.category, final.title, final.correct, list(final.considered))
        tried += 1
        try:
            result = final.merge(fb)
        except Exception as e:
            if clause == 'raises_nothing' and type(e).__name__ in where:
                canon = 'merge raises %s: category=%r suppress=%r fields=%r' % (type(e).__name__, cat, supp, fields)
                return {'confirmed': True, 'canon': 'merge raises %s (%s)' % (
                    type(e).__name__, 'category=None' if cat is None else 'label suppression with fields'),
                    'input': {'category': cat, 'label': label, 'fields': fields, 'suppress': supp},
                    'observed': '%s: %s' % (type(e).__name__, e)}
            continue
        is_supp = _ref_suppressed(cat, label, fields, supp)
        elig = (not is_supp) and trig and not muted and kind != 'Compliment'
        install = elig and before[0] is None
        bad = None
        for clause in ([case['clause']] if not inner else top):
            bad = _merge_clause(clause, final, before, fb, result, is_supp, elig, install, msg, label, cat, correct)
            if bad:
                break
        if bad:
            return {'confirmed': True, 'canon': 'merge.%s: %s' % (clause, bad),
                    'input': {'category': cat, 'label': label, 'fields': fields, 'suppress': supp, 'muted': muted,
                              'kind': kind, 'activate': trig, 'correct': correct, 'message': msg},
                    'observed': {'message': final.message, 'label': final.label, 'correct': final.correct,
                                 'merge_returned': repr(result)}}
    return {'confirmed': False, 'note': 'no failing input among %d structured merge inputs' % tried}


def _merge_clause(clause, final, before, fb, result, is_supp, elig, install, msg, label, cat, correct):
        bad = None
        if clause == 'considered' and final.considered != before[5] + [fb]:
            bad = 'considered list'
        if clause == 'suppressed_skipped' and is_supp and result is not None:
            bad = 'suppressed feedback was used'
        if clause == 'message_installed' and install and (final.message, final.label, final.category) != (msg, label, cat):
            bad = 'eligible feedback not installed'
        if clause == 'message_kept' and not install and (final.message, final.label, final.category, final.title) != before[:4]:
            bad = 'ineligible feedback changed the message'
        if clause == 'correct_updated' and elig and bool(final.correct) != (bool(correct) and bool(before[4])):
            bad = 'correctness not the conjunction'
        if clause == 'correct_kept' and not elig and final.correct != before[4]:
            bad = 'ineligible feedback changed correctness'
        if clause == 'success_is_correct' and elig and final.success != final.correct:
            bad = 'success differs from correct'
        return bad


def _ref_suppressed(cat, label, fields, supp):
    if supp is None:
        return False
    if supp[0] == 'cat':
        if cat is None:
            return False          # the suppression names 'runtime'; a category-less feedback is 'uncategorized'
        if len(supp) == 1:
            return True
        if supp[1].lower() != label.lower():
            return False
        return fields_match(supp[2] if len(supp) > 2 else {}, fields)
    if supp[1] != label:
        return False
    return fields_match(supp[2] if len(supp) > 2 else {}, fields)


def replay_finalize(case, w):
    from pedal.core.report import Report
    from pedal.core.final_feedback import FinalFeedback
    clause = case['clause']
    cands = [w] if w else []
    cands += [{'message': m, 'label': l, 'category': c, 'correct': k}
              for m in (None, 'shown') for l in ('set_correct_no_errors', 'x') for c in ('complete', 'runtime')
              for k in (True, False, None)]
    for hide in (False, True):
        for cand in cands:
            report = Report()
            if hide:
                report.suppress('correct')
            ff = FinalFeedback(correct=cand.get('correct'), score=0, title=None if cand.get('message') is None else 'T',
                               message=cand.get('message'), category=cand.get('category'), label=cand.get('label'),
                               data=[], hide_correctness=False, suppressions=report.suppressions,
                               suppressed_labels=report.suppressed_labels)
            before = (ff.message, ff.title, ff.correct)
            try:
                ff.finalize()
            except Exception as e:
                if clause == 'raises_nothing':
                    return {'confirmed': True, 'canon': 'finalize raises %s' % type(e).__name__, 'input': cand,
                            'observed': repr(e)}
                continue
            shown = before[0] is not None
            bad = None
            if clause == 'shown_text_kept' and shown and (ff.message, ff.title) != before[:2]:
                bad = 'shown message replaced'
            if clause == 'correct_is_conjunction' and ff.correct is not bool(before[2]):
                bad = 'correct is not the conjunction that merge accumulated'
            if clause == 'default_text' and (not shown) and hide and (ff.title, ff.message) != ('No Errors', 'No errors reported.'):
                bad = 'default text'
            if clause == 'correct_when_nothing_shown' and not shown and not hide and cand.get('label') == 'set_correct_no_errors' \
                    and cand.get('category') == 'complete' and before[2] and (ff.correct is not True or ff.score != 1):
                bad = 'default result not correct'
            if clause == 'success_is_correct' and ff.success is not ff.correct:
                bad = 'success differs'
            if bad:
                return {'confirmed': True,
                        'canon': 'finalize.%s: %s (label=%s category=%s)' % (clause, bad, cand.get('label'), cand.get('category')),
                        'input': dict(cand, hidden=hide),
                        'observed': {'message': ff.message, 'title': ff.title, 'correct': ff.correct, 'score': ff.score}}
    return {'confirmed': False, 'note': 'finalize satisfied the clause on %d inputs' % (2 * len(cands))}


def replay_priority(case, w):
    from pedal.resolvers.simple import by_priority, priority_offset

    class FB:
        pass
    words = [None] + DOC_ORDER + list(ALIASES) + ['high', 'medium', 'low', 'HIGH', 'Syntax', 'other']
    for c in [w.get('category')] + words:
        for p in [w.get('priority')] + words:
            fb = FB()
            fb.category, fb.priority = c, p
            try:
                got = by_priority(fb)
            except Exception as e:
                return {'confirmed': True, 'canon': 'by_priority raises %s' % type(e).__name__,
                        'input': {'category': c, 'priority': p}, 'observed': repr(e)}
            want = key({'category': c, 'priority': p})
            if abs(got - want) > 1e-9:
                return {'confirmed': True, 'canon': 'by_priority(category=%r, priority=%r)' % (c, p),
                        'input': {'category': c, 'priority': p}, 'observed': {'got': got, 'want': want}}
    return {'confirmed': False, 'note': 'by_priority agrees with the documented key on all named categories/priorities'}


def replay_add_to_current(case, w):
    from pedal.core.scoring import Score
    for inv in (False, True):
        for op in (None, '', '+', '-'):
            for val in (0.5, 2.0):
                for cur in (0, 1.5):
                    got = Score(inv, op, val, False, '').add_to_current(cur)
                    want = cur + (0 if inv else (-val if op == '-' else val))
                    if abs(got - want) > 1e-12:
                        return {'confirmed': True, 'canon': 'add_to_current(invert=%r, op=%r)' % (inv, op),
                                'input': {'invert': inv, 'operator': op, 'value': val, 'current': cur},
                                'observed': {'got': got, 'want': want}}
    return {'confirmed': False}


def replay_combine(case, w):
    from pedal.core.scoring import combine_scores
    pools = [[], [1], [0.5, '10%'], ['+10%', '-5%'], ['!10%', 1], ['!-0.5', '0.25'], [1, 2, 3], ['1', '+1', '-1']]
    for scores in pools:
        want = 0
        for s in scores:
            if isinstance(s, str):
                inv = s.startswith('!')
                want += 0 if inv else signed(s.lstrip('!'))
            else:
                want += s
        try:
            got = combine_scores(list(scores))
        except Exception as e:
            return {'confirmed': True, 'canon': 'combine_scores raises', 'input': scores, 'observed': repr(e)}
        if abs(got - round(want, 2)) > 1e-9:
            return {'confirmed': True, 'canon': 'combine_scores(%r)' % (scores,), 'input': scores,
                    'observed': {'got': got, 'want': round(want, 2)}}
    return {'confirmed': False}
