"""C09 native side: bounded stand-in B-tifa-flow.  Programs over two variables built from assignments,
reads (print) and if / if-else / if-elif-else with nesting <= 2; the oracle enumerates every combination
of branch outcomes and classifies each read (always / never / sometimes assigned before) and each
variable (never / always read after its last assignment)."""
import ast
import itertools
import random

ATOMS = ['a = 1', 'b = 2', 'print(a)', 'print(b)']


def blocks():
    out = [[x] for x in ATOMS]
    return out


def indent(lines, n=1):
    return ['    ' * n + l for l in lines]


def items():
    """top-level items: atoms and if-structures whose blocks hold one atom (or one nested if)"""
    out = [[a] for a in ATOMS]
    B = blocks()
    for b in B:
        out.append(['if c:'] + indent(b))
    for b1, b2 in itertools.product(B, B):
        out.append(['if c:'] + indent(b1) + ['else:'] + indent(b2))
    for b1, b2, b3 in itertools.product(B[:4], B[:4], B[:4]):
        out.append(['if c:'] + indent(b1) + ['elif d:'] + indent(b2) + ['else:'] + indent(b3))
    for b1, b2 in itertools.product(B, B):
        out.append(['if c:'] + indent(['if d:'] + indent(b1) + ['else:'] + indent(b2)))
        out.append(['if c:'] + indent(['if d:'] + indent(b1)) + ['else:'] + indent(b2))
    return out


def deep_items():
    """three levels: if / elif / elif / else chains and triply nested ifs, one atom per block"""
    out = []
    B = blocks()
    for b1, b2, b3, b4 in itertools.product(B, repeat=4):
        out.append(['if c:'] + indent(b1) + ['elif d:'] + indent(b2) + ['elif c:'] + indent(b3) + ['else:'] + indent(b4))
        out.append(['if c:'] + indent(['if d:'] + indent(['if c:'] + indent(b1) + ['else:'] + indent(b2)) + ['else:'] + indent(b3))
                   + ['else:'] + indent(b4))
    return out


HEADER = ['c = input()', 'd = input()']


def build(seq):
    lines = list(HEADER)
    for it in seq:
        lines += it
    return '\n'.join(lines) + '\n'


class Path(Exception):
    pass


def oracle(code):
    """-> (reads: {(line, name): set of 'def'/'undef' over the paths reaching it},
           unused: {name: set of booleans 'read after last assignment' over paths that assign it})"""
    tree = ast.parse(code)
    tests = [n for n in ast.walk(tree) if isinstance(n, ast.If)]
    reads, unused = {}, {}
    for outcome in itertools.product([True, False], repeat=len(tests)):
        choice = {id(t): o for t, o in zip(tests, outcome)}
        defined = set()
        events = []          # ('w', name) / ('r', name)

        def run(stmts):
            for s in stmts:
                if isinstance(s, ast.Assign):
                    for n in ast.walk(s.value):
                        if isinstance(n, ast.Name) and n.id not in ('print', 'input'):
                            read(n)
                    name = s.targets[0].id
                    defined.add(name)
                    events.append(('w', name))
                elif isinstance(s, ast.Expr):
                    for n in ast.walk(s.value):
                        if isinstance(n, ast.Name) and n.id not in ('print', 'input'):
                            read(n)
                elif isinstance(s, ast.If):
                    for n in ast.walk(s.test):
                        if isinstance(n, ast.Name):
                            read(n)
                    run(s.body if choice[id(s)] else s.orelse)

        def read(n):
            reads.setdefault((n.lineno, n.id), set()).add('def' if n.id in defined else 'undef')
            events.append(('r', n.id))
        run(tree.body)
        for name in ('a', 'b'):
            idx = [i for i, e in enumerate(events) if e == ('w', name)]
            if idx:
                last = idx[-1]
                unused.setdefault(name, set()).add(any(e == ('r', name) for e in events[last + 1:]))
    return reads, unused


def tifa(code):
    from pedal.core.commands import clear_report, contextualize_report
    from pedal.tifa import tifa_analysis
    clear_report()
    contextualize_report(code)
    t = tifa_analysis()
    init = {}
    for label in ('initialization_problem', 'possible_initialization_problem', 'read_out_of_scope'):
        for fb in t.issues.get(label, []):
            init.setdefault((fb.location.line, fb.fields.get('name')), set()).add(label)
    unused = set(fb.fields.get('name') for fb in t.issues.get('unused_variable', []))
    return t, init, unused


def check(code):
    fails = []
    reads, unused = oracle(code)
    try:
        t, init, tifa_unused = tifa(code)
    except Exception as e:
        return [('raises', 'tifa raised %r' % e)]
    if not t.success:
        return [('internal_failure', 'analysis failed: %r' % t.error)]
    for (line, name), outcomes in reads.items():
        if name in ('c', 'd'):
            continue
        got = init.get((line, name), set())
        if outcomes == {'def'}:
            if got:
                fails.append(('spurious_issue', 'line %d: %s is assigned on every path before this read, TIFA reports %s' % (
                    line, name, sorted(got))))
        elif outcomes == {'undef'}:
            if not (got & {'initialization_problem', 'read_out_of_scope'}):
                fails.append(('missed_definite', 'line %d: %s is never assigned before this read, TIFA reports %s' % (
                    line, name, sorted(got) or 'nothing')))
        else:
            if 'possible_initialization_problem' not in got:
                fails.append(('missed_possible', 'line %d: %s is assigned on some paths only, TIFA reports %s' % (
                    line, name, sorted(got) or 'nothing')))
    for name, outcomes in unused.items():
        if outcomes == {False} and name not in tifa_unused:
            # class of the failing program: is the variable also read somewhere while unassigned on some path?
            loose = any('undef' in o for (l, n), o in reads.items() if n == name)
            fails.append(('missed_unused_and_uninitialised_read' if loose else 'missed_unused',
                          '%s is never read after its last assignment on any path, not reported unused' % name))
        if outcomes == {True} and name in tifa_unused:
            fails.append(('spurious_unused', '%s is read after its last assignment on every path, reported unused' % name))
    return fails


# ---- part 2: loops and function calls; oracle = instrumented real execution under every choice sequence
class _Instr(ast.NodeTransformer):
    def __init__(self):
        self.locals = set()

    def visit_FunctionDef(self, node):
        # default values are evaluated where the def statement stands, in the enclosing scope
        node.args.defaults = [self.visit(d) for d in node.args.defaults]
        self.locals = set(n.id for n in ast.walk(node) if isinstance(n, ast.Name) and isinstance(n.ctx, ast.Store))
        node.body = [self.visit(st) for st in node.body]
        self.locals = set()
        return node

    def visit_Name(self, node):
        if isinstance(node.ctx, ast.Load) and node.id in ('a', 'b', 'i'):
            lam = ast.Lambda(args=ast.arguments(posonlyargs=[], args=[], kwonlyargs=[], kw_defaults=[], defaults=[]),
                             body=ast.Name(id=node.id, ctx=ast.Load()))
            return ast.copy_location(ast.Call(func=ast.Name(id='__rd', ctx=ast.Load()),
                                              args=[lam, ast.Constant(node.lineno), ast.Constant(node.id),
                                                    ast.Constant(node.id in self.locals)], keywords=[]), node)
        return node

    def visit_If(self, node):
        self.generic_visit(node)
        # the test is still evaluated (its reads count); its outcome is the next choice
        node.test = ast.Call(func=ast.Name(id='__ch', ctx=ast.Load()), args=[node.test], keywords=[])
        return node

    visit_While = visit_If

    def visit_For(self, node):
        self.generic_visit(node)
        node.iter = ast.Call(func=ast.Name(id='__loop', ctx=ast.Load()), args=[], keywords=[])
        return node


def executions(code, max_choices=7, for_min=0):
    """reads: {(line, name): set of 'def' / 'undef' / 'undef_shadow'} over every real execution (choice sequence) of
    the program; 'undef_shadow' = a function-local name read before its local assignment while a global of that
    name is assigned.  for_min = least number of iterations of a for loop."""
    tree = ast.fix_missing_locations(_Instr().visit(ast.parse(code)))
    compiled = compile(tree, 'student.py', 'exec')
    reads = {}
    stack = [[]]
    runs = 0
    while stack:
        prefix = stack.pop()
        used = [0]

        def ch(*evaluated):
            k = used[0]
            used[0] += 1
            return prefix[k] if k < len(prefix) else False

        def loop():
            n = 0
            while n < 2 and (n < for_min or ch()):
                n += 1
                yield n

        def rd(thunk, line, name, is_local):
            try:
                v = thunk()
                reads.setdefault((line, name), set()).add('def')
                return v
            except NameError:
                reads.setdefault((line, name), set()).add('undef_shadow' if is_local and name in env else 'undef')
                return 0
        env = {'__ch': ch, '__loop': loop, '__rd': rd, 'print': lambda *a: None, 'input': lambda *a: ''}
        try:
            exec(compiled, env)
        except RecursionError:
            pass
        runs += 1
        for k in range(len(prefix), min(used[0], max_choices)):
            stack.append(prefix + [False] * (k - len(prefix)) + [True])
    return reads, runs


def gen_block(rnd, depth):
    n = rnd.choice([1, 1, 2])
    out = []
    for _ in range(n):
        out += gen_stmt(rnd, depth)
    return out


def gen_stmt(rnd, depth):
    kinds = ['atom'] * 4 + (['if', 'ifelse', 'for', 'while'] if depth < 2 else [])
    k = rnd.choice(kinds)
    if k == 'atom':
        return [rnd.choice(ATOMS + ['a = b', 'b = a'])]
    cond = rnd.choice(['c', 'c', 'd', 'd', 'a', 'b'])
    if k == 'if':
        return ['if %s:' % cond] + indent(gen_block(rnd, depth + 1))
    if k == 'ifelse':
        return ['if %s:' % cond] + indent(gen_block(rnd, depth + 1)) + ['else:'] + indent(gen_block(rnd, depth + 1))
    if k == 'for':
        return ['for i in xs:'] + indent(gen_block(rnd, depth + 1))
    return ['while %s:' % cond] + indent(gen_block(rnd, depth + 1))


def gen_program(rnd):
    lines = list(HEADER) + ['xs = input().split()']
    if rnd.random() < 0.4:
        # sometimes with a parameter whose default value reads a variable at the def statement
        default = rnd.choice([None, None, 'a', 'b'])
        lines += ['def f(%s):' % ('p=' + default if default else '')] + indent(gen_block(rnd, 1) + (['print(p)'] if default else []))
        body = [gen_stmt(rnd, 0) for _ in range(rnd.choice([1, 2, 3]))]
        body.insert(rnd.randrange(len(body) + 1), ['f()'])
        for st in body:
            lines += st
    else:
        for _ in range(rnd.choice([2, 3, 4])):
            lines += gen_stmt(rnd, 0)
    return '\n'.join(lines) + '\n'


def check_loops(code):
    reads, runs = executions(code)
    try:
        t, init, tifa_unused = tifa(code)
    except Exception as e:
        return [('raises', 'tifa raised %r' % e)], runs
    fails = []
    reads1 = None
    for (line, name), outcomes in reads.items():
        if (outcomes & {'undef', 'undef_shadow'}) and not init.get((line, name)):
            if reads1 is None:
                reads1, runs1 = executions(code, for_min=1)
                runs += runs1
            o1 = reads1.get((line, name), set())
            if 'undef' in o1:
                what = 'missed_uninitialised_read'
            elif 'undef_shadow' in o1:
                what = 'missed_uninitialised_local_read_shadowing_a_global'
            else:
                what = 'missed_uninitialised_read_after_for_loop_with_zero_iterations'
            fails.append((what, 'line %d: %s is unassigned on a real execution of this read, TIFA reports '
                          'nothing at that line' % (line, name)))
    return fails, runs


def bounded(arg):
    quick = arg.get('tier') == 'quick'
    rnd = random.Random(arg.get('seed', 0) + 9)
    IT = items()
    seqs = [[i] for i in IT]
    pairs = list(itertools.product(IT, IT))
    if quick:
        rnd.shuffle(pairs)
        pairs = pairs[:1200]
    seqs += [list(p) for p in pairs]
    for _ in range(300 if quick else 6000):
        seqs.append([rnd.choice(IT) for _ in range(rnd.choice([3, 4]))])
    deep = [[pre, d, post] if pre else [d, post] for d in deep_items() for pre in (None, ['a = 1'], ['b = 2'])
            for post in (['print(a)'], ['print(b)'])]
    if quick:
        rnd.shuffle(deep)
        deep = deep[:500]
    seqs += deep
    failures, samples = [], []
    evaluations = 0
    distinct = set()
    for seq in seqs:
        code = build(seq)
        evaluations += 1
        distinct.add(code)
        for what, detail in check(code):
            if sum(1 for f in failures if f['id'] == what) < 25:
                failures.append({'id': what, 'canon': what, 'detail': detail + ' | program: %r' % code})
    nloop = 400 if quick else 6000
    total_runs = 0
    for _ in range(nloop):
        code = gen_program(rnd)
        evaluations += 1
        distinct.add(code)
        fails, runs = check_loops(code)
        total_runs += runs
        for what, detail in fails:
            if sum(1 for f in failures if f['id'] == what) < 25:
                failures.append({'id': what, 'canon': what, 'detail': detail + ' | program: %r' % code})
    samples = [{'program': build(seqs[200])}, {'program': build(seqs[-1])}, {'program': code}]
    return {'name': 'B-tifa-flow', 'bound': ('%d random programs with for / while loops (0-2 iterations), nested branches and a called '
            'function, each run natively under every choice sequence (%d executions); ' % (nloop, total_runs)) + '%d programs over variables a, b: all single items and %s ordered pairs of %d items (atoms, '
            'if / if-else / if-elif-else / nested if with one-statement blocks) plus random sequences of 3-4 items, plus %s of the 3072 programs around an if/elif/elif/else chain or a triply nested if; oracle = '
            'enumeration of all branch-outcome combinations' % (len(seqs), 'sampled' if quick else 'all', len(IT), '500' if quick else 'all'),
            'evaluations': evaluations, 'distinct_nontrivial': len(distinct),
            'rule': 'distinct = program text', 'samples': samples, 'failures': failures}


def ground(arg):
    """the three-valued join is decided exhaustively over the 3 x 3 domain"""
    from pedal.tifa.tifa_core import TifaCore
    out = []
    for a, b in itertools.product(['yes', 'no', 'maybe'], repeat=2):
        want = a if a == b else 'maybe'
        got = TifaCore.match_rso(a, b)
        out.append({'id': 'match_rso[%s,%s]' % (a, b), 'ok': got == want, 'detail': 'match_rso(%s, %s) = %s' % (a, b, got),
                    'witness': {'left': a, 'right': b}, 'canon': 'match_rso[%s,%s]' % (a, b)})
    return out


def replay(case):
    for item in ground({}):
        if not item['ok']:
            return {'confirmed': True, 'canon': item['canon'], 'input': item['witness'], 'observed': item['detail']}
    r = bounded({'tier': 'quick'})
    for f in r['failures']:
        return {'confirmed': True, 'canon': f['canon'], 'input': f['detail'], 'observed': f['detail']}
    return {'confirmed': False}
