"""C18 native side: bounded stand-in B-tifa-robust.  One program per Python statement/expression form
(arbitrary language forms: tifa_analysis must return instead of raising), programs of the introductory
subset with every builtin function name TIFA knows and the common methods of str/list/dict (the
analysis must complete), repetition (same issues, no further feedback), and issue lines within the
analysed source."""
import ast

FORMS = [
    "x = 1", "x: int = 1", "x += 1", "a, b = 1, 2", "a = b = 3", "del x", "pass", "assert x", "global g", "import os",
    "from os import path", "import os.path as p", "if x:\n    pass\nelif y:\n    pass\nelse:\n    pass",
    "for i in range(3):\n    pass\nelse:\n    pass", "while x:\n    break", "for i in []:\n    continue",
    "def f(a, b=1, *c, d, **e):\n    return a", "def g():\n    yield 1", "def h():\n    yield from []",
    "async def co():\n    await other()", "async def co2():\n    async for i in it:\n        pass",
    "async def co3():\n    async with cm as c:\n        pass", "class A:\n    x = 1\n    def m(self):\n        return self.x",
    "class B(A, metaclass=type):\n    pass", "@dec\ndef deco():\n    pass", "with open('f') as fh:\n    pass",
    "with a as b, c as d:\n    pass", "try:\n    pass\nexcept ValueError as e:\n    pass\nelse:\n    pass\nfinally:\n    pass",
    "try:\n    pass\nexcept* ValueError:\n    pass", "raise ValueError('x')", "raise ValueError from None", "lambda a: a",
    "x = [i for i in range(3) if i]", "x = {i: i for i in range(3)}", "x = {i for i in range(3)}",
    "x = (i for i in range(3))", "x = 1 if y else 2", "x = a and b or not c", "x = a < b < c", "x = -a + ~b",
    "x = a[1:2, ::3]", "x = a.b.c", "x = f(*args, **kwargs)", "x = f'{a!r:>{w}}'", "x = b'bytes'", "x = ...",
    "x = 1j", "x = [1, *rest]", "x = {**d, 'k': 1}", "x = (y := 5)", "print(x, sep='', end='')", "x = a @ b",
    "x = a if b else c if d else e", "match x:\n    case 1:\n        pass\n    case [a, *b]:\n        pass\n    case {'k': v}:\n        pass\n    case A(x=1) | None:\n        pass\n    case _:\n        pass",
    "type Alias = int", "def gen[T](a: T) -> T:\n    return a", "nonlocal_test = 1\ndef outer():\n    v = 1\n    def inner():\n        nonlocal v\n        v = 2",
    "x = not (yield)" if False else "x = await_ = 1", "return_outside = 1", "x = 'a' 'b'", "x = [][0]", "x = {}['k']",
    "x = 1 .real", "x = (1).__class__", "x = type(1)", "x = __name__", "x = a if a else b", "x = [1, 2][-1]",
    "for a, (b, c) in pairs:\n    pass", "x, *y = [1, 2, 3]", "x = y = z = []", "x = print", "x = -1 ** 2",
]

INTRO = [
    "x = 5\ny = x + 2\nprint(y)", "name = input('n')\nprint('Hi ' + name)", "total = 0\nfor i in range(10):\n    total = total + i\nprint(total)",
    "values = [1, 2, 3]\nfor v in values:\n    print(v * 2)", "d = {'a': 1}\nd['b'] = 2\nfor k in d:\n    print(k, d[k])",
    "def add(a, b):\n    return a + b\nprint(add(1, 2))", "s = 'hello'\nprint(s.upper(), s.lower(), s.strip(), s.split(), s.replace('l', 'L'))",
    "s = 'a,b'\nparts = s.split(',')\nprint(len(parts), parts[0])", "xs = []\nxs.append(1)\nxs.extend([2])\nxs.insert(0, 0)\nxs.sort()\nxs.reverse()\nprint(xs.pop(), xs.index(1), xs.count(1))",
    "d = {}\nd.update({'a': 1})\nprint(d.get('a'), d.keys(), d.values(), d.items(), d.pop('a'))",
    "import math\nprint(math.sqrt(4), math.pi, math.floor(2.5))", "import random\nprint(random.randint(1, 6))",
    "x = 3\nif x > 2:\n    print('big')\nelif x == 2:\n    print('two')\nelse:\n    print('small')",
    "i = 0\nwhile i < 3:\n    i = i + 1\nprint(i)", "t = (1, 'a')\na, b = t\nprint(a, b)", "x = int('5') + float('2.5')\nprint(str(x), bool(x))",
    "nums = [1, 2, 3]\nprint(sum(nums), min(nums), max(nums), len(nums), sorted(nums), list(reversed(nums)))",
    "for i, v in enumerate(['a']):\n    print(i, v)", "for a, b in zip([1], [2]):\n    print(a + b)", "print(abs(-1), round(2.567, 1), pow(2, 3), divmod(7, 2))",
    "def fact(n):\n    if n <= 1:\n        return 1\n    return n * fact(n - 1)\nprint(fact(5))", "x = [n * 2 for n in range(5) if n % 2 == 0]\nprint(x)",
    "text = 'abc'\nfor ch in text:\n    print(ch)\nprint(text[0], text[1:], 'b' in text)", "print(type(1), isinstance(1, int), range(3), any([True]), all([False]))",
    "print(ord('a'), chr(97), hex(10), bin(2), repr('x'))", "f = open('data.txt')\ncontents = f.read()\nf.close()\nprint(contents)",
    "x = None\nif x is None:\n    x = 0\nprint(x)", "a = 1\nb = 2.0\nprint(a + b, a - b, a * b, a / b, a // b, a % b, a ** b)",
    "s = 'x'\nprint(s.startswith('x'), s.endswith('x'), s.find('x'), s.join(['a', 'b']), s.isdigit(), s.isalpha(), s.title(), s.capitalize())",
    "x = ()\nfor a in x:\n    print(a)\nprint(len(x), x + (1,))", "pair = ()\nif not pair:\n    pair = (1, 2)\nprint(pair[0])",
    "from dataclasses import dataclass\n@dataclass\nclass P:\n    x: int\n    y: str\np = P(1, 'a')\nprint(p.x, p.y)",
    # dictionaries whose keys are not literals, then used with a literal key
    "name = input()\nd = {name: 5}\nprint(d['a'])\nd['b'] = 6\nprint(d.get('c'))", "a = 1\nb = 2\nd = {a + b: 'x'}\nd[3] = 'y'\nprint(d.get(3), d.pop(3))",
    # containers whose element / key / value types have nothing in common
    "d = {'a': 1, 'b': 'x'}\nfor k, v in d.items():\n    for c in v:\n        print(k, c)",
    "d = {'a': 1, 2: 'x'}\nfor k in d.keys():\n    print(k)\nfor v in d.values():\n    print(v)",
    "s = 'ab'\nx = [len(s), s] + [3]\nprint(x)", "y = 1 if input() else 'a'\nz = [y] + [y]\nprint(z)",
]


def documented_calls():
    """every builtin function TIFA knows and every public method of str/list/dict/int/float/tuple/set, called with
    0-2 positional arguments of several types and with each keyword parameter CPython documents"""
    import builtins
    import inspect
    from pedal.types.builtin import BUILTIN_NAMES
    skip = {'exit', 'quit', 'help', 'license', 'credits', 'copyright', 'breakpoint'}
    progs = []

    def keywords(f):
        try:
            return [q.name for q in inspect.signature(f).parameters.values()
                    if q.name != 'self' and q.kind in (q.POSITIONAL_OR_KEYWORD, q.KEYWORD_ONLY)]
        except (ValueError, TypeError):
            return []
    for name in sorted(BUILTIN_NAMES):
        f = getattr(builtins, name, None)
        if name.startswith('_') or name in skip or not callable(f):
            continue
        for args in ['', '1', "'a'", '[1, 2]', '1, 2', "'a', 'b'", '[1], [2]', 'x', 'x, 2']:
            progs.append("x = 5\nr = %s(%s)\nprint(r)" % (name, args))
        for kw in keywords(f):
            progs.append("x = 5\nr = %s(%s=2)\nprint(r)" % (name, kw))
            progs.append("x = 5\nr = %s(x, %s=2)\nprint(r)" % (name, kw))
    extra = {'print': ['sep', 'end', 'file', 'flush'], 'sorted': ['key', 'reverse'], 'max': ['key', 'default'],
             'min': ['key', 'default'], 'int': ['base'], 'round': ['ndigits'], 'sum': ['start'], 'enumerate': ['start'],
             'open': ['mode', 'encoding'], 'str': ['encoding'], 'zip': ['strict']}
    for name, kws in extra.items():
        for kw in kws:
            progs.append("x = [1]\nr = %s(x, %s=2)\nprint(r)" % (name, kw))
    for recv, typ in [("'abc'", str), ('[1, 2]', list), ("{'a': 1}", dict), ('5', int), ('2.5', float), ('(1, 2)', tuple),
                      ('{1, 2}', set)]:
        for m in dir(typ):
            if m.startswith('_'):
                continue
            for args in ['', '1', "'a'", '[1]', "'a', 'b'", '1, 2']:
                progs.append("v = %s\nr = v.%s(%s)\nprint(r)" % (recv, m, args))
            for kw in keywords(getattr(typ, m)):
                progs.append("v = %s\nr = v.%s(%s=1)\nprint(r)" % (recv, m, kw))
    return progs


def analyse(code, times=1):
    from pedal.core.commands import clear_report, contextualize_report
    from pedal.core.report import MAIN_REPORT
    from pedal.tifa import tifa_analysis
    clear_report()
    contextualize_report(code)
    results = []
    counts = []
    for _ in range(times):
        results.append(tifa_analysis())
        counts.append(len(MAIN_REPORT.feedback) + len(MAIN_REPORT.ignored_feedback))
    return results, counts


def issue_key(t):
    out = []
    for label, fbs in sorted(t.issues.items()):
        for fb in fbs:
            loc = getattr(fb, 'location', None)
            out.append((label, fb.fields.get('name'), getattr(loc, 'line', None)))
    return sorted(out, key=repr)


def bounded(arg):
    from pedal.types.builtin import BUILTIN_NAMES
    failures, samples = [], []
    evaluations = 0
    distinct = set()
    programs = [(f, 'form') for f in FORMS] + [(p, 'intro') for p in INTRO]
    # a module that exits the interpreter when it is imported (as the __main__ of some packages does): TIFA imports
    # modules it has no type table for, and must survive that
    import os
    import sys
    import tempfile
    exits_dir = tempfile.mkdtemp(prefix='c18_exits_')
    with open(os.path.join(exits_dir, 'pedal_verif_exits_on_import.py'), 'w') as fh:
        fh.write("raise SystemExit(3)\n")
    sys.path.insert(0, exits_dir)
    programs.append(("import pedal_verif_exits_on_import\nprint(1)", 'form'))
    skip = {'exit', 'quit', 'help', 'license', 'credits', 'copyright', 'breakpoint'}
    for name in sorted(BUILTIN_NAMES):
        if name.startswith('_') or name in skip:
            continue
        programs.append(("v = %s\nprint(v)" % name, 'form'))
        programs.append(("r = %s(1)\nprint(r)" % name, 'form'))
    calls = documented_calls()
    if arg.get('tier') == 'quick':
        calls = calls[::3]
    programs += [(c, 'intro') for c in calls]
    for code, kind in programs:
        try:
            ast.parse(code)
        except SyntaxError:
            continue
        evaluations += 1
        distinct.add((kind, code[:60]))
        try:
            results, counts = analyse(code, times=3)
        except BaseException as e:
            failures.append({'id': 'never_raises', 'canon': 'tifa_analysis raised', 'detail': '%r on program %r' % (e, code[:80])})
            continue
        t = results[0]
        if kind == 'intro' and not t.success:
            failures.append({'id': 'completes', 'canon': 'analysis of an introductory program fails internally',
                             'detail': 'program %r: %r' % (code[:80], t.error)})
        if any(r is not t for r in results[1:]) or any(issue_key(r) != issue_key(t) for r in results[1:]):
            failures.append({'id': 'idempotent', 'canon': 'repeated analysis gives different issues',
                             'detail': 'program %r' % code[:80]})
        if len(set(counts)) != 1:
            failures.append({'id': 'idempotent', 'canon': 'repeated analysis attaches more feedback',
                             'detail': 'program %r: feedback counts %r' % (code[:80], counts)})
        nlines = code.count("\n") + 1
        for label, name, line in issue_key(t):
            if line is not None and not (1 <= line <= nlines):
                failures.append({'id': 'issue_line', 'canon': 'issue line outside the analysed source',
                                 'detail': 'program %r: %s at line %r of %d' % (code[:80], label, line, nlines)})
    sys.path.remove(exits_dir)
    import shutil
    shutil.rmtree(exits_dir, ignore_errors=True)
    # sequences on one report and across reports: the result for a code does not depend on what was analysed before
    from pedal.core.commands import clear_report, contextualize_report
    from pedal.tifa import tifa_analysis
    seq_programs = [INTRO[0], "print(undefined_name)\nunused = 1\n", INTRO[2], "x = 1\nx = 'a' + 1\n",
                    "import math\ny = math.tau * 2 + 1\nmath.tau = 'six-ish'\nprint(y)\n", "import math\nprint(math.tau + 1)\n",
                    "vals = [1]\nvals.append('a')\nprint(vals[0] + 1)\n",
                    "def shout(words: list) -> str:\n    return words[0].upper()\n\ndef total(values: list[int]) -> int:\n    return sum(values)\n\n"
                    "print(shout(['a', 'b']))\nprint(total([1, 2]))\n",
                    "def shout(words: list) -> str:\n    return words[0].upper()\nprint(shout(['a', 'b']))\n",
                    "def total(values: list[int]) -> int:\n    return sum(values)\nprint(total([1, 2]))\n",
                    "def keys(d: dict[str, int]) -> list[str]:\n    return list(d.keys())\nprint(keys({'a': 1}))\n"]

    def fresh_issues(code):
        clear_report()
        contextualize_report(code)
        return issue_key(tifa_analysis())
    alone = {}
    for code in seq_programs:
        alone[code] = fresh_issues(code)
    for a in seq_programs:
        for b in seq_programs:
            evaluations += 1
            distinct.add(('sequence', a[:25], b[:25]))
            # one report: A, then B, then A again
            clear_report()
            contextualize_report(a)
            first = issue_key(tifa_analysis(a))
            tifa_analysis(b)
            again = issue_key(tifa_analysis(a))
            if first != alone[a] or again != alone[a]:
                failures.append({'id': 'idempotent', 'canon': 'analysis of a code depends on what the report analysed before',
                                 'detail': 'A=%r B=%r: alone %r, first %r, after B %r' % (a[:60], b[:60], alone[a], first, again)})
            # a new report after another program was analysed
            fresh_issues(b)
            later = fresh_issues(a)
            if later != alone[a]:
                failures.append({'id': 'idempotent', 'canon': 'analysis of a code depends on an earlier report in the same process',
                                 'detail': 'A=%r after B=%r: alone %r, later %r' % (a[:60], b[:60], alone[a], later)})
    samples = [{'program': FORMS[12]}, {'program': INTRO[8]}]
    return {'name': 'B-tifa-robust', 'bound': '%d programs: %d statement/expression forms of Python 3.12, %d introductory programs '
            '(builtin functions, methods of str/list/dict, branches, loops, functions, imports), every builtin name TIFA knows read '
            'and called; %d calls of every known builtin function and every public method of str/list/dict/int/float/tuple/set with 0-2 '
            'positional arguments and each documented keyword (analysis must complete); each analysed 3 times; 121 ordered pairs (A, B) of 11 programs: A alone = A, B, A on one report = A on a new report after B' % (
                len(programs), len(FORMS), len(INTRO), len(calls)),
            'evaluations': evaluations, 'distinct_nontrivial': len(distinct),
            'rule': 'distinct = (kind, program prefix)', 'samples': samples, 'failures': failures}


def ground(arg):
    return []


def replay(case):
    r = bounded({})
    for f in r['failures']:
        return {'confirmed': True, 'canon': f['canon'], 'input': f['detail'], 'observed': f['detail']}
    return {'confirmed': False}
