"""C05 / C04 native side: bounded stand-in B-sandbox.  Every termination mode x entry point (run,
call, evaluate) x tracer style on a real Sandbox; before/after snapshots of the process state the
sandbox borrows (sys.stdout, the keys and identities in sys.modules, time.sleep, sys.gettrace) and
of the sandbox's own stacks; containment and the runtime feedback for C04."""
import sys
import time
_SLEEP = time.sleep   # the real one: a sandbox that fails to restore it must not stall the harness
import itertools

MODES = {
    'normal': "x = 1\nprint(x)\n",
    'two_argument_exception': "class E(Exception):\n    def __init__(self, a, b):\n        Exception.__init__(self, a, b)\nraise E(1, 2)\n",
    'raise_SyntaxError_no_line': "raise SyntaxError('m', ('answer.py', None, None, None))\n",
    'deep_recursion_then_raise': "def f(n):\n    if n == 0:\n        raise ValueError('deep')\n    return f(n - 1)\nf(12)\n",
    'very_deep_recursion_then_raise': "def f(n):\n    if n == 0:\n        raise ValueError('deep')\n    return f(n - 1)\nf(150)\n",
    'many_inputs_then_error': "for i in range(35):\n    input()\nprint(1 / 0)\n",
    'open_submission_source': "open('answer.py').read()\n",
    'open_submission_for_writing': "open('notes.txt', 'w')\n",
    'raise_BdbQuit': "import bdb\nprint('dbg')\nraise bdb.BdbQuit\n",
    'through_library': "import json\ndef enc(o):\n    return 1 / 0\njson.dumps(object(), default=enc)\n",
    'timeout': "print('started')\nwhile True:\n    pass\n",
    'ValueError': "raise ValueError('bad')\n",
    'ZeroDivision': "print('before')\n1/0\n",
    'NameError': "print(undefined)\n",
    'KeyError': "d = {}\nd['k']\n",
    'custom_exception': "class Mine(Exception):\n    pass\nraise Mine('m')\n",
    'broken_str': "class Broken(Exception):\n    def __str__(self):\n        raise RuntimeError('no str')\nraise Broken()\n",
    'broken_repr': "class Broken2(Exception):\n    def __repr__(self):\n        raise RuntimeError('no repr')\n    def __str__(self):\n        return 'ok'\nraise Broken2()\n",
    'SystemExit_raise': "print('bye')\nraise SystemExit\n",
    'sys_exit': "import sys\nsys.exit(3)\n",
    'exit_builtin': "exit()\n",
    'RecursionError': "def f():\n    return f()\nf()\n",
    'SyntaxError': "x = (\n",
    'blocked_eval': "eval('1')\n",
    'blocked_open': "open('/etc/passwd')\n",
    'import_pedal': "import pedal\n",
    'KeyboardInterrupt': "raise KeyboardInterrupt\n",
    'GeneratorExit': "raise GeneratorExit\n",
    'BaseException_subclass': "class E(BaseException):\n    pass\nraise E('x')\n",
    'assertion': "assert False, 'nope'\n",
    'stop_iteration': "next(iter([]))\n",
    'stdout_closed': "import sys\nprint('x')\nsys.stdout.close()\n",
    'stdout_closed_then_error': "import sys\nsys.stdout.close()\n1/0\n",
    'raise_SyntaxError': "raise SyntaxError('boo')\n",
    'setattr_broken': "class Frozen(Exception):\n    def __setattr__(self, k, v):\n        raise TypeError('frozen')\nraise Frozen()\n",
    'exit_setattr_broken': "class Frozen2(SystemExit):\n    def __setattr__(self, k, v):\n        raise TypeError('frozen')\nraise Frozen2()\n",
    'own_settrace': "import sys\nsys.settrace(None)\nx = 1\n",
    'IndentationError': "if True:\nx = 1\n",
    'TabError': "if True:\n\tx = 1\n        y = 2\n",
    'finally_after_raise': "try:\n    1/0\nfinally:\n    x = 1\n    y = 2\n",
    'reraise_after_cleanup': "try:\n    int('x')\nexcept ValueError:\n    z = 0\n    z = 1\n    raise\n",
    'raise_in_function': "def g():\n    return [][1]\ndef h():\n    v = g()\n    return v\nh()\n",
    'imports_a_fresh_module': "import colorsys\nprint(colorsys.rgb_to_hsv(1, 0, 0))\n",
    'KeyError_subclass': "class MyKeyError(KeyError):\n    pass\nraise MyKeyError('a')\n",
    'unicode_decode': "b'\\xff'.decode('utf8')\n",
    'SyntaxError_other_file': "x = 1\nraise SyntaxError('bad', ('other.py', 7, 1, 'x'))\n",
    'NameError_with_hostile_getattr': "class A:\n    def __getattr__(self, name):\n        raise ValueError('no')\n    def m(self):\n        return undefined_name\nA().m()\n",
}
# the class of the student's own failure, by mode: what sandbox.exception and the feedback have to name
EXPECT = {'very_deep_recursion_then_raise': 'ValueError', 'two_argument_exception': 'E', 'custom_exception': 'Mine', 'KeyError': 'KeyError', 'ValueError': 'ValueError',
          'ZeroDivision': 'ZeroDivisionError', 'NameError': 'NameError', 'KeyError_subclass': 'MyKeyError',
          'unicode_decode': 'UnicodeDecodeError', 'SyntaxError_other_file': 'SyntaxError',
          'NameError_with_hostile_getattr': 'NameError', 'assertion': 'AssertionError', 'stop_iteration': 'StopIteration',
          'RecursionError': 'RecursionError', 'broken_str': 'Broken', 'setattr_broken': 'Frozen', 'sys_exit': 'SystemExit',
          'raise_in_function': 'IndexError', 'through_library': 'ZeroDivisionError'}
CONTAINED = [m for m in MODES if m not in ('KeyboardInterrupt', 'GeneratorExit', 'BaseException_subclass', 'normal', 'imports_a_fresh_module',
                                           'stdout_closed', 'own_settrace')]
ESCAPING = ['KeyboardInterrupt', 'GeneratorExit', 'BaseException_subclass']


def snapshot(sb):
    return {'stdout': sys.stdout, 'modules': dict(sys.modules), 'sleep': time.sleep, 'trace': sys.gettrace(),
            'patches': len(sb._current_patches), 'stdouts': len(sb._current_stdout)}


def diff(a, b):
    out = []
    if a['stdout'] is not b['stdout']:
        out.append('sys.stdout not restored')
    if a['sleep'] is not b['sleep']:
        out.append('time.sleep not restored')
    if a['trace'] is not b['trace'] and a.get('check_trace', True) and b.get('check_trace', True):
        out.append('trace function not restored')
    if a['patches'] != b['patches']:
        out.append('patch stack %d -> %d' % (a['patches'], b['patches']))
    if a['stdouts'] != b['stdouts']:
        out.append('stdout stack %d -> %d' % (a['stdouts'], b['stdouts']))
    gone = [k for k in a['modules'] if k not in b['modules']]
    changed = [k for k in a['modules'] if k in b['modules'] and a['modules'][k] is not b['modules'][k]]
    if gone or changed:
        out.append('sys.modules entries removed %r / replaced %r' % (gone[:3], changed[:3]))
    # modules that only the student's code imported do not stay behind (pedal's own lazily imported parts may)
    added = [k for k in b['modules'] if k not in a['modules'] and not k.startswith(('pedal', 'encodings', 'coverage'))]
    if added:
        out.append('sys.modules entries added %r' % (sorted(added)[:4],))
    return out


def fresh(tracer):
    from pedal.core.report import Report
    from pedal.core.submission import Submission
    from pedal.sandbox.sandbox import Sandbox
    report = Report()
    report.contextualize(Submission(files={'answer.py': 'pass', 'notes.txt': 'n', 'picture.png': b'\x89PNG\x00\x01'}, main_file='answer.py', main_code='pass'))
    sb = Sandbox(report=report)
    if tracer != 'none':
        sb.tracer_style = tracer
    return sb, report


def execute(sb, entry, mode):
    code = MODES[mode]
    if entry == 'threaded_run_with_import':
        sb.threaded = True
        sb.allowed_time = 2
        sb.report.submission.files['helper.py'] = code
        return sb.run("import helper\n", filename='answer.py')
    if mode == 'timeout':
        sb.threaded = True
        sb.allowed_time = 0.3
    if entry == 'run_with_import':
        sb.report.submission.files['helper.py'] = code
        return sb.run("import helper\n", filename='answer.py')
    if entry == 'run':
        return sb.run(code, filename='answer.py')
    if entry == 'call':
        sb.run("def target():\n" + "".join("    " + l + "\n" for l in code.splitlines()) + "    return 1\n", filename='answer.py')
        return sb.call('target')
    if entry == 'evaluate':
        sb.run("def target():\n" + "".join("    " + l + "\n" for l in code.splitlines()) + "    return 1\n", filename='answer.py')
        return sb.evaluate('target()')


def one(entry, mode, tracer, prop):
    fails = []
    try:
        sb, report = fresh(tracer)
    except Exception as e:
        return [('setup', 'tracer %s unavailable: %s' % (tracer, e))] if False else []
    if entry not in ('run',) and mode in ('SyntaxError', 'import_pedal', 'IndentationError', 'TabError'):
        return []
    if entry == 'run_with_import' and mode in ('stdout_closed', 'stdout_closed_then_error'):
        return []
    before = snapshot(sb)
    before['check_trace'] = tracer in ('native', 'calls')
    n_rt = len([f for f in report.feedback + report.ignored_feedback if f.category == 'runtime'])
    escaped = None
    try:
        execute(sb, entry, mode)
    except BaseException as e:
        escaped = e
    after = snapshot(sb)
    if prop in ('C04', 'all') and mode in CONTAINED:
        if escaped is not None:
            fails.append(('contained', '%s/%s/%s: %s escaped into the grader' % (entry, mode, tracer, type(escaped).__name__)))
        else:
            rts = [f for f in report.feedback + report.ignored_feedback if f.category == 'runtime']
            if sb.exception is None:
                fails.append(('exception_available', '%s/%s/%s: sandbox.exception is None' % (entry, mode, tracer)))
            if len(rts) - n_rt != 1:
                fails.append(('one_runtime_feedback', '%s/%s/%s: %d runtime feedbacks attached' % (entry, mode, tracer, len(rts) - n_rt)))
            elif sb.exception is not None:
                fb = rts[-1]
                want = sb.exception.__class__.__name__
                if fb.fields.get('exception_name') != want:
                    fails.append(('describes_class', '%s/%s/%s: feedback names %r, exception is %s' % (
                        entry, mode, tracer, fb.fields.get('exception_name'), want)))
                elif mode in EXPECT and want != EXPECT[mode]:
                    fails.append(('describes_class', '%s/%s/%s: the student raised %s, sandbox.exception and the feedback '
                                  'name %s' % (entry, mode, tracer, EXPECT[mode], want)))
                lines_ = {'deep_recursion_then_raise': 3, 'very_deep_recursion_then_raise': 3, 'many_inputs_then_error': 3, 'through_library': 3, 'raise_BdbQuit': 3, 'ValueError': 1, 'ZeroDivision': 2, 'NameError': 1, 'KeyError': 2, 'assertion': 1,
                          'finally_after_raise': 2, 'reraise_after_cleanup': 2, 'raise_in_function': 2}
                if entry == 'run' and mode in lines_:
                    line = lines_[mode]
                    if getattr(fb.location, 'line', None) != line:
                        fails.append(('student_line', '%s/%s: located at %r, raised on line %d' % (
                            entry, mode, getattr(fb.location, 'line', None), line)))
    if prop in ('C05', 'all'):
        for d in diff(before, after):
            fails.append(('restore', '%s/%s/%s: %s' % (entry, mode, tracer, d)))
        # a later execution must capture output normally
        try:
            sb.threaded = False
            sb2 = sb.run("print('later')", filename='answer.py')
            if not sb.raw_output.endswith('later\n'):
                fails.append(('later_output', '%s/%s/%s: a later execution did not capture its output' % (entry, mode, tracer)))
        except BaseException as e:
            fails.append(('later_output', '%s/%s/%s: a later execution raised %r' % (entry, mode, tracer, e)))
    return fails


def bounded(arg):
    prop = arg.get('prop', 'all')
    quick = arg.get('tier') == 'quick'
    tracers = ['none'] if quick else ['none', 'native']
    failures, samples = [], []
    evaluations = 0
    distinct = set()
    tracers = ['none', 'native', 'calls']
    for entry, mode, tracer in itertools.product(('run', 'call', 'evaluate', 'run_with_import'), MODES, tracers):
        if quick and tracer != 'none' and entry in ('call', 'evaluate'):
            continue
        if tracer == 'calls' and (mode in ('own_settrace', 'RecursionError', 'timeout') or
                                  (quick and entry != 'run_with_import' and mode != 'raise_BdbQuit')):
            continue            # bdb-based tracing: student settrace / deep recursion / async exceptions are out of its contract
        evaluations += 1
        distinct.add((entry, mode, tracer))
        try:
            fails = one(entry, mode, tracer, prop)
        except BaseException as e:
            fails = [('harness', '%s/%s/%s: harness error %r' % (entry, mode, tracer, e))]
        if len(samples) < 3:
            samples.append({'entry': entry, 'mode': mode, 'tracer': tracer, 'program': MODES[mode]})
        for what, detail in fails:
            canon = what
            if mode in ESCAPING:
                canon += ' (non-Exception class)'
            if mode in ('broken_str', 'broken_repr'):
                canon += ' (' + mode + ')'
            failures.append({'id': what, 'canon': canon, 'detail': detail, 'entry': entry, 'mode': mode})
    # threaded execution of a file that imports a second student file
    for mode in ('normal', 'ValueError', 'sys_exit', 'two_argument_exception', 'custom_exception', 'unicode_decode',
                 'KeyError_subclass', 'broken_str'):
        evaluations += 1
        distinct.add(('threaded_run_with_import', mode, 'none'))
        try:
            fails = one('threaded_run_with_import', mode, 'none', prop)
        except BaseException as e:
            fails = [('harness', 'threaded_run_with_import/%s: harness error %r' % (mode, e))]
        for what, detail in fails:
            failures.append({'id': what, 'canon': what + ' (threaded nested import, %s)' % mode, 'detail': detail,
                             'entry': 'threaded_run_with_import', 'mode': mode})
    # a sequence: after a timed-out threaded execution, a threaded execution that exits by itself is the student's own
    # exit (contained, reported, everything restored) - not a second abandoned worker
    try:
        sb, report = fresh('none')
        sb.threaded = True
        sb.allowed_time = 0.3
        import threading as _threading

        def workers_gone():
            # thread identifiers are recycled once a worker has ended: let the abandoned one end first
            deadline = time.time() + 3
            while _threading.active_count() > 1 and time.time() < deadline:
                _SLEEP(0.01)
        for rounds in range(3):
            sb.run(MODES['timeout'], filename='answer.py')
            workers_gone()
            before = snapshot(sb)
            n_rt = len([f for f in report.feedback + report.ignored_feedback if f.category == 'runtime'])
            sb.run("import sys\nprint('leaving')\nsys.exit(2)\n", filename='answer.py')
            after = snapshot(sb)
            workers_gone()
            evaluations += 1
            distinct.add(('sequence', 'timeout_then_exit', rounds))
            rts = [f for f in report.feedback + report.ignored_feedback if f.category == 'runtime']
            if prop in ('C04', 'all') and (not isinstance(sb.exception, SystemExit) or len(rts) - n_rt != 1):
                failures.append({'id': 'one_runtime_feedback', 'canon': 'one_runtime_feedback (exit after an earlier timeout)',
                                 'detail': 'threaded sys.exit(2) after a timed-out execution: exception %r, %d runtime feedbacks'
                                 % (sb.exception, len(rts) - n_rt), 'entry': 'run', 'mode': 'timeout_then_exit'})
            if prop in ('C05', 'all'):
                for d in diff(before, after):
                    failures.append({'id': 'restore', 'canon': 'restore (exit after an earlier timeout)',
                                     'detail': 'threaded sys.exit(2) after a timed-out execution: %s' % d,
                                     'entry': 'run', 'mode': 'timeout_then_exit'})
    except BaseException as e:
        failures.append({'id': 'harness', 'canon': 'harness', 'detail': 'timeout_then_exit sequence: %r' % e, 'entry': 'run',
                         'mode': 'timeout_then_exit'})
    return {'name': 'B-sandbox', 'bound': 'product of %d termination modes x 4 entry points (run, call, evaluate, run with a nested '
            'import of a second student file) x tracer styles none/native/calls (coverage needs the absent `coverage` package); timeout = threaded busy loop, 0.3 s' % len(MODES), 'evaluations': evaluations, 'distinct_nontrivial': len(distinct), 'exhaustive': True,
        'rule': 'distinct = (entry point, termination mode, tracer)', 'samples': samples, 'failures': failures}


def ground(arg):
    return []


def replay(case):
    prop = 'C04' if 'c04' in case.get('target', '') else 'all'
    for entry in ('run', 'call', 'evaluate', 'run_with_import'):
        for mode in MODES:
            fails = one(entry, mode, 'none', 'all') or one(entry, mode, 'native', 'all')
            if fails:
                what, detail = fails[0]
                return {'confirmed': True, 'canon': what + (' (non-Exception class)' if mode in ESCAPING else ''),
                        'input': {'entry': entry, 'program': MODES[mode]}, 'observed': [d for _, d in fails]}
    return {'confirmed': False, 'note': 'all termination modes restored the borrowed state'}
