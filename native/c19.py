"""C19 native side.  ground (finite, exhaustive - a complete decision by evaluation): every binary
operator and comparison x every ordered pair of core operand types, through the real TIFA on the
program `a = <literal>; b = <literal>; c = a <op> b`, against what CPython does with those operands.
bounded: expression trees to depth 2 and nested JSON-like values for get_pedal_type_from_value."""
import ast
import itertools
import random

CORE = [('int', '7'), ('float', '2.5'), ('str', "'ab'"), ('list', '[1, 2]'), ('tuple', '(1, 2)'), ('bool', 'True')]
BINOPS = ['+', '-', '*', '/', '//', '%', '**', '<<', '>>', '|', '^', '&']
COMPARES = ['==', '!=', '<', '<=', '>', '>=', 'in', 'not in', 'is', 'is not']


def analyse(code):
    from pedal.core.commands import clear_report, contextualize_report
    from pedal.tifa import tifa_analysis
    clear_report()
    contextualize_report(code)
    return tifa_analysis()


def _short(value):
    """repr that cannot fail (Python refuses to print integers of more than 4300 digits)"""
    try:
        text = repr(value)
    except ValueError:
        return '<%s too large to print>' % type(value).__name__
    return text if len(text) <= 80 else text[:77] + '...'


def conforms(value, pedal_type):
    """the run-time value conforms to the inferred pedal type"""
    from pedal.types.normalize import get_pedal_type_from_value
    from pedal.types.new_types import is_subtype, Type
    if not isinstance(pedal_type, Type):
        return False, 'inferred %r is not a pedal Type' % (pedal_type,)
    vt = get_pedal_type_from_value(value)
    try:
        ok = is_subtype(vt, pedal_type)
    except Exception as e:
        return False, 'is_subtype raised %r' % e
    return ok, 'value %s has type %s, inferred %s' % (_short(value), type(vt).__name__, type(pedal_type).__name__)


def cpython(expr, env):
    try:
        return 'ok', eval(expr, {}, dict(env))
    except TypeError:
        return 'TypeError', None
    except Exception as e:
        return 'other:' + type(e).__name__, None


# empty containers have the operand type without an element type to go by
EMPTY = [('empty_list', '[]'), ('empty_tuple', '()'), ('empty_str', "''")]
# the sign of an operand decides the class of a power's result
NEG = [('negative_int', '-2'), ('negative_float', '-2.5')]


def ground(arg):
    out = []
    cells = list(itertools.product(CORE, CORE)) + list(itertools.product(EMPTY, CORE + EMPTY)) + \
        list(itertools.product(CORE, EMPTY)) + list(itertools.product(NEG, CORE[:2] + NEG)) + list(itertools.product(CORE[:2], NEG))
    for (na, la), (nb, lb) in cells:
        env = {'a': eval(la), 'b': eval(lb)}
        for op in BINOPS + COMPARES:
            oid = 'cell[%s %s %s]' % (na, op, nb)
            kind, value = cpython('a %s b' % op, env)
            code = "a = %s\nb = %s\nc = a %s b\nprint(c)\n" % (la, lb, op)
            try:
                t = analyse(code)
            except Exception as e:
                out.append({'id': oid, 'ok': False, 'detail': 'tifa_analysis raised %r' % e, 'witness': {'program': code},
                            'canon': oid})
                continue
            incompatible = 'incompatible_types' in t.issues
            ok, detail = True, ''
            if kind == 'TypeError' and not incompatible:
                ok, detail = False, 'CPython raises TypeError for %s %s %s but TIFA reports nothing' % (na, op, nb)
            elif kind == 'ok' and not incompatible:
                ty = t.top_level_variables['c'].type if 'c' in t.top_level_variables else None
                good, why = conforms(value, ty)
                if not good:
                    ok, detail = False, '%s %s %s: %s' % (na, op, nb, why)
            out.append({'id': oid, 'ok': ok, 'detail': detail or 'agrees with CPython (%s)' % kind,
                        'witness': {'program': code}, 'canon': oid})
    # the augmented form `a <op>= b` of every binary operator: same table, operands in the same order
    pairs = CORE + [('tuple_of_mixed', "(1, 'x')"), ('tuple_of_float', '(2.5,)'), ('list_of_str', "['y']")]
    for (na, la), (nb, lb) in itertools.product(pairs, pairs):
        for op in BINOPS:
            oid = 'augcell[%s %s= %s]' % (na, op, nb)
            ns = {'a': eval(la), 'b': eval(lb)}
            try:
                exec('a %s= b' % op, {}, ns)
                kind, value = 'ok', ns['a']
            except TypeError:
                kind, value = 'TypeError', None
            except Exception as e:
                kind, value = 'other:' + type(e).__name__, None
            code = "a = %s\nb = %s\na %s= b\nprint(a)\n" % (la, lb, op)
            try:
                t = analyse(code)
            except Exception as e:
                out.append({'id': oid, 'ok': False, 'detail': 'tifa_analysis raised %r' % e, 'witness': {'program': code}, 'canon': oid})
                continue
            incompatible = 'incompatible_types' in t.issues
            ok, detail = True, ''
            if kind == 'TypeError' and not incompatible:
                ok, detail = False, 'CPython raises TypeError for %s %s= %s but TIFA reports nothing' % (na, op, nb)
            elif kind == 'ok' and not incompatible:
                ty = t.top_level_variables['a'].type if 'a' in t.top_level_variables else None
                good, why = conforms(value, ty)
                if not good:
                    ok, detail = False, '%s %s= %s: %s' % (na, op, nb, why)
            out.append({'id': oid, 'ok': ok, 'detail': detail or 'agrees with CPython (%s)' % kind,
                        'witness': {'program': code}, 'canon': oid})
    return out


TUPLE_KEYED = [{k1: v1, k2: v2} for k1, k2 in [((1, 2), (3, 4)), ((), (1, 'a')), ((1,), (2,)), (('a', 1), ('b', 2))]
               for v1, v2 in [('a', 5), (1, 2), (1, 2.5), ([1], ['s']), (None, 's'), ((1,), (1, 2))]]
VALUES = TUPLE_KEYED + [[d] for d in TUPLE_KEYED[:4]] + [1, 2.5, True, 's', None, [], [1], [1, 2.5], ['a', 1], (1, 's'), (), {'a': 1}, {}, {1, 2}, set(),
          {1, 'a'}, {(1, 2), 's'}, [[1], [2]], {'k': [1, 2]}, [(1, 's'), (2, 't')], {'a': {'b': 1.5}}, [None], (1, (2, (3,)))]


def all_values():
    """every nested value of depth <= 2 over the atoms: lists/tuples/sets of 1-2 elements, dicts of 1-2 entries"""
    atoms = [1, 2.5, True, 's', None, (1, 2)]
    inner = list(atoms)
    for x, y in itertools.product(atoms, atoms):
        inner.append([x, y])
    for x in atoms:
        inner.append([x])
        inner.append({'k': x})
    out = list(VALUES)
    for x in inner:
        out.append([x])
        out.append((x,))
        out.append({'k': x})
    for (k1, k2), (v1, v2) in itertools.product(itertools.combinations(atoms, 2), itertools.product(atoms, atoms)):
        out.append({k1: v1, k2: v2})
    for k1, k2 in itertools.combinations(atoms, 2):
        out.append({k1: [1], k2: ['s']})
        out.append([{k1: 1}, {k2: 2}])
    for x, y in itertools.product(inner[:12], inner[:12]):
        out.append([x, y])
    return out


def bounded(arg):
    from pedal.types.normalize import get_pedal_type_from_value, normalize_type
    from pedal.types.new_types import is_subtype, Type
    failures, samples = [], []
    evaluations = 0
    distinct = set()
    # value typing: stable and conforming to the normalised Python type
    values = all_values()
    for v in values:
        evaluations += 1
        distinct.add(('value', repr(v)))
        try:
            t = get_pedal_type_from_value(v)
            a = is_subtype(t, t)
            b = is_subtype(t, t)
            c = is_subtype(t, normalize_type(type(v)).as_type())
        except Exception as e:
            failures.append({'id': 'value_type', 'canon': 'value typing raises', 'detail': '%r: %r' % (v, e)})
            continue
        if not (a and b):
            failures.append({'id': 'value_type', 'canon': 'type of a value is not a subtype of itself on repeated queries',
                             'detail': 'get_pedal_type_from_value(%r): is_subtype(t, t) = %r then %r' % (v, a, b)})
        if not c:
            failures.append({'id': 'value_type', 'canon': 'type of a value does not conform to its Python type',
                             'detail': '%r: %s vs %s' % (v, type(t).__name__, type(v).__name__)})
    # expression trees of depth 2 over core operands
    rnd = random.Random(arg.get('seed', 0) + 3)
    n = 150 if arg.get('tier') == 'quick' else 2000
    lits = [l for _, l in CORE]
    for _ in range(n):
        o1, o2 = rnd.choice(BINOPS), rnd.choice(BINOPS)
        x, y, z = rnd.choice(lits), rnd.choice(lits), rnd.choice(lits)
        expr = '(a %s b) %s c' % (o1, o2) if rnd.random() < 0.5 else 'a %s (b %s c)' % (o1, o2)
        env = {'a': eval(x), 'b': eval(y), 'c': eval(z)}
        kind, value = cpython(expr, env)
        code = "a = %s\nb = %s\nc = %s\nd = %s\nprint(d)\n" % (x, y, z, expr)
        evaluations += 1
        distinct.add((o1, o2, x, y, z, expr[0]))
        try:
            t = analyse(code)
        except Exception as e:
            failures.append({'id': 'tree', 'canon': 'tifa raises on an expression tree', 'detail': '%s: %r' % (code, e)})
            continue
        incompatible = 'incompatible_types' in t.issues
        if kind == 'TypeError' and not incompatible:
            failures.append({'id': 'tree', 'canon': 'TypeError not reported in an expression tree',
                             'detail': '%s with %s,%s,%s' % (expr, x, y, z)})
        elif kind == 'ok' and not incompatible and 'd' in t.top_level_variables:
            good, why = conforms(value, t.top_level_variables['d'].type)
            if not good:
                failures.append({'id': 'tree', 'canon': 'inferred type of an expression tree does not fit the value',
                                 'detail': '%s with %s,%s,%s: %s' % (expr, x, y, z, why)})
        if len(samples) < 2:
            samples.append({'program': code, 'cpython': kind})
    return {'name': 'B-types', 'bound': '%d nested JSON-like values (all lists/tuples/dicts of 1-2 elements of depth <= 2 over 6 atoms, mixed key types included); %d random expression trees of depth 2 over %d operators and '
            '%d core operand literals' % (len(values), n, len(BINOPS), len(CORE)),
            'evaluations': evaluations, 'distinct_nontrivial': len(distinct),
            'rule': 'distinct = value / (operators, operands, shape)', 'samples': samples, 'failures': failures}


def replay(case):
    for item in ground({}):
        if not item['ok']:
            return {'confirmed': True, 'canon': item['canon'], 'input': item['witness'], 'observed': item['detail']}
    return {'confirmed': False}
