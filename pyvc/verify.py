"""Per-function verification driver: extraction from /repo's current source, path
enumeration by re-execution, obligation generation and discharge."""
import ast
import hashlib
import importlib
import inspect
import os
import sys
import time
import z3
from . import vals as V
from .vals import Val, SeqVal
from .engine import ReplayMismatch
from .engine import (State, Unsupported, PathEnd, PyRaise, _Return, _Break, _Continue, PyConst, Obligation,
                     class_axioms)
from .interp import Interp, FnCtx
from .contracts import (Registry, Contract, frame_obligations, eval_loc_with, exc_matches, bind_params)
from . import solve

MAX_PATHS = 4000


class Extracted:
    def __init__(self, node, file, qual, module, dropped, src, cls):
        self.node, self.file, self.qual, self.module = node, file, qual, module
        self.dropped, self.src, self.cls = dropped, src, cls
        self.sha = hashlib.sha256(src.encode()).hexdigest()[:16]


def extract(target):
    """Re-read the source file and locate the FunctionDef by module path + qualname."""
    modname, qual = target.split(':')
    mod = importlib.import_module(modname)
    file = inspect.getsourcefile(mod)
    src = open(file).read()
    tree = ast.parse(src, file)
    body = tree.body
    node = None
    cls = None
    parts = qual.split('.')
    for i, part in enumerate(parts):
        if part == '<locals>':
            continue
        found = None
        for n in body:
            if isinstance(n, (ast.FunctionDef, ast.ClassDef)) and n.name == part:
                found = n
        if found is None:
            raise Unsupported('cannot locate %s in %s' % (qual, file))
        if isinstance(found, ast.ClassDef) and i < len(parts) - 1:
            cls = getattr(mod, part) if cls is None else getattr(cls, part)
        node = found
        body = found.body
    if not isinstance(node, ast.FunctionDef):
        raise Unsupported('%s is not a function' % qual)
    dropped = []
    if node.body and isinstance(node.body[0], ast.Expr) and isinstance(node.body[0].value, ast.Constant) \
            and isinstance(node.body[0].value.value, str):
        dropped.append('docstring')
    decos = [ast.unparse(d) for d in node.decorator_list]
    if decos:
        dropped.append('decorators: ' + ', '.join(decos))
    if node.returns is not None or any(a.annotation is not None for a in node.args.args + node.args.kwonlyargs):
        dropped.append('type annotations')
    seg = ast.get_source_segment(src, node) or ''
    return Extracted(node, file, qual, mod, dropped, seg, cls)


def loop_ids(fnode):
    loops = [n for n in ast.walk(fnode) if isinstance(n, (ast.For, ast.While))]
    loops.sort(key=lambda n: (n.lineno, n.col_offset))
    return {id(n): i + 1 for i, n in enumerate(loops)}


def name_quantified(st, name, value, sp):
    """a let-bound specification value that contains quantifiers is named by a fresh Boolean
    constant (with its definition in the path condition), so goals that merely mention it stay
    quantifier-free"""
    from .engine import _has_quant
    if V.is_val(value) and V.tagname(value) == 'b' and _has_quant(value):
        b = z3.Bool(st.fresh_name('let_' + name))
        st.pc.append(b == Val.bv(value))
        return Val.b(b)
    return value


class PathResult:
    def __init__(self):
        self.obligations = []
        self.pending = []
        self.outcome = None
        self.error = None
        self.assumptions = set()
        self.trusted = set()
        self.solver_calls = 0
        self.notes = []
        self.covered = set()


DEAD_MS = int(os.environ.get('PYVC_DEAD_MS', '1500'))


def statement_lines(fnode):
    """line of every statement of the function itself (docstring and nested definitions' bodies excluded)"""
    out = {}

    def walk(stmts, top=False):
        for i, s_ in enumerate(stmts):
            if top and i == 0 and isinstance(s_, ast.Expr) and isinstance(s_.value, ast.Constant) and isinstance(s_.value.value, str):
                continue
            out[id(s_)] = s_.lineno
            if isinstance(s_, (ast.FunctionDef, ast.AsyncFunctionDef, ast.ClassDef)):
                continue
            for f in ('body', 'orelse', 'finalbody'):
                walk(getattr(s_, f, []) or [])
            for h in getattr(s_, 'handlers', []) or []:
                walk(h.body)
    walk(fnode.body, top=True)
    return out


def statement_texts(ex):
    lines = sorted(set(statement_lines(ex.node).values()))
    try:
        src = open(ex.file).read().split('\n')
    except OSError:
        src = []
    return {ln: (src[ln - 1].strip() if 0 < ln <= len(src) else '') for ln in lines}


def cut_positions(c, ex):
    """index of the top-level statement each cut stands before (None if the text is not found)"""
    out = []
    texts = [ast.unparse(stmt) for stmt in ex.node.body]
    for cut in c.cuts:
        out.append(texts.index(cut.before) if cut.before in texts else None)
    return out


def run_path(reg, c, ex, decisions, segment=0):
    st = State(decisions)
    res = PathResult()
    fn = FnCtx(c.target, c, vars(ex.module))
    fn.loop_ids = loop_ids(ex.node)
    fn.stmt_lines = statement_lines(ex.node)
    params = ex.node.args
    env = {}
    names = [a.arg for a in params.posonlyargs + params.args] + [a.arg for a in params.kwonlyargs]
    if params.vararg:
        names.append(params.vararg.arg)
    if params.kwarg:
        names.append(params.kwarg.arg)
    for n in names:
        v = z3.Const('a_' + n, Val)
        env[n] = v
        st.assume(z3.Implies(Val.is_o(v), z3.And(Val.ref(v) < st.alloc0, Val.ref(v) >= 0)))
        st.assume(v != V.ABSENT)
    for n in c.options.get('captures', []):
        v = z3.Const('a_' + n, Val)
        env[n] = v
        st.assume(z3.Implies(Val.is_o(v), z3.And(Val.ref(v) < st.alloc0, Val.ref(v) >= 0)))
        st.assume(v != V.ABSENT)
    st.assume(st.alloc0 >= 0)
    st.env = env
    # the contract may rename nothing: its parameter list must equal the code's
    cnames = [a.arg for a in c.node.args.posonlyargs + c.node.args.args] + [a.arg for a in c.node.args.kwonlyargs]
    if c.node.args.vararg:
        cnames.append(c.node.args.vararg.arg)
    if c.node.args.kwarg:
        cnames.append(c.node.args.kwarg.arg)
    names = [n for n in names if n not in c.options.get('captures', [])]
    if cnames != names:
        res.error = 'contract parameters %r differ from the code\'s %r' % (cnames, names)
        res.outcome = 'unsupported'
        return res, st
    spec_env = dict(env)
    sp = Interp(st, c.glob, reg, fn, pure=True, env=spec_env)
    it = Interp(st, vars(ex.module), reg, fn, pure=False, env=env)
    try:
        for cl in c.clauses:
            if cl.kind == 'let':
                spec_env[cl.name] = name_quantified(st, cl.name, sp.ev(cl.node), sp)
            elif cl.kind in ('requires', 'define'):
                st.assume(sp.truth(sp.ev(cl.node)))
            elif cl.kind == 'uses_lemma':
                pass
        fn.pre_heap = st.heap.copy()
        fn.pre_env = dict(spec_env)
        fn.pre_alloc = st.alloc
        lsp = Interp(st, c.glob, reg, fn, pure=True, env=spec_env)
        locs = []
        for n in c.modifies:
            locs += eval_loc_with(lsp, n)
        positions = cut_positions(c, ex)
        if any(p is None for p in positions):
            raise Unsupported('cut point text not found in %s: %r' % (
                c.target, [k.before for k, p in zip(c.cuts, positions) if p is None]))
        start = 0
        pre_for_cut = (fn.pre_heap, fn.pre_env)
        if segment > 0:
            # start at cut #segment: havoc what the code before it may have changed, assume the cut
            from .loops import assigned_names
            from .contracts import havoc_locs
            cut = c.cuts[segment - 1]
            start = positions[segment - 1]
            for name in assigned_names(ex.node.body[:start]):
                env[name] = st.fresh('cv_' + name)
                st.assume(z3.Implies(Val.is_o(env[name]), Val.ref(env[name]) >= 0))
            clocs = locs
            if cut.modifies is not None:
                clocs = []
                for n in cut.modifies:
                    clocs += eval_loc_with(lsp, n)
            havoc_locs(it, clocs)
            a2 = st.fresh('alloc', V.I)
            st.assume(a2 >= st.alloc)
            st.alloc = a2
            for name in assigned_names(ex.node.body[:start]):
                st.assume(z3.Implies(Val.is_o(env[name]), Val.ref(env[name]) < st.alloc))
            cenv = dict(spec_env)
            cenv.update({k: v for k, v in env.items() if k not in cenv})
            csp = Interp(st, c.glob, reg, fn, pure=True, env=cenv, old=pre_for_cut,
                         specials={'__pre_alloc__': fn.pre_alloc})
            for node in cut.nodes:
                st.assume(csp.truth(csp.ev(node)))
        outcome = ('return', V.NONE)
        try:
            for idx in range(start, len(ex.node.body)):
                for ci, pos in enumerate(positions):
                    if pos == idx and idx > start or (pos == idx and segment == 0 and idx == 0 and False):
                        cut = c.cuts[ci]
                        cenv = dict(spec_env)
                        cenv.update({k: v for k, v in env.items() if k not in cenv})
                        csp = Interp(st, c.glob, reg, fn, pure=True, env=cenv, old=pre_for_cut,
                                     specials={'__pre_alloc__': fn.pre_alloc})
                        for j, node in enumerate(cut.nodes):
                            st.oblige(c.target, 'cut[%s]#%d' % (cut.name, j + 1), 'cut', csp.truth(csp.ev(node)))
                        if cut.modifies is not None:
                            cl = []
                            for n in cut.modifies:
                                cl += eval_loc_with(lsp, n)
                            frame_obligations(it, fn.pre_heap, st.heap, cl, fn.pre_alloc, 'cut[%s].frame' % cut.name)
                        raise PathEnd('cut')
                it.exec(ex.node.body[idx])
        except _Return as r:
            outcome = ('return', r.value)
        except PyRaise as pr:
            outcome = ('raise', pr.exc, pr.origin)
        except (_Break, _Continue):
            raise Unsupported('break/continue outside loop')
        # ---- postconditions
        pre = (fn.pre_heap, fn.pre_env)
        if outcome[0] == 'return':
            result = it.to_val(outcome[1]) if not isinstance(outcome[1], (PyConst,)) or True else outcome[1]
            specials = {'result': result, '__pre_alloc__': fn.pre_alloc, '__abstract_log__': fn.abstract_log}
            post = Interp(st, c.glob, reg, fn, pure=True, env=dict(spec_env), old=pre, specials=specials)
            for cl in c.clauses:
                if cl.kind in ('ensures', 'on_any_exit'):
                    st.oblige(c.target, cl.name, 'post', post.truth(post.ev(cl.node)),
                              where='%s:%s' % (os.path.basename(c.file), cl.node.lineno))
            res.outcome = 'return'
        else:
            exc = outcome[1]
            specials = {'raised': exc, '__pre_alloc__': fn.pre_alloc, '__abstract_log__': fn.abstract_log}
            post = Interp(st, c.glob, reg, fn, pure=True, env=dict(spec_env), old=pre, specials=specials)
            if c.raises_nothing:
                st.oblige(c.target, 'raises_nothing', 'exc', z3.BoolVal(False),
                          where='raised: %s' % (outcome[2] or 'code'))
            elif c.raises_only is not None:
                alts = []
                for n in c.raises_only:
                    alts.append(exc_matches(it, exc, post.ev(n)))
                st.oblige(c.target, 'raises_only', 'exc', z3.Or(*alts) if alts else z3.BoolVal(False),
                          where='raised: %s' % (outcome[2] or 'code'))
            for cl in c.clauses:
                if cl.kind == 'ensures_raises':
                    m = exc_matches(it, exc, post.ev(cl.extra))
                    st.oblige(c.target, cl.name, 'exc-post', z3.Implies(m, post.truth(post.ev(cl.node))),
                              where='exit by exception: %s' % (outcome[2] or 'code'))
                elif cl.kind == 'on_any_exit':
                    st.oblige(c.target, cl.name, 'post', post.truth(post.ev(cl.node)),
                              where='exit by exception: %s' % (outcome[2] or 'code'))
            res.outcome = 'raise'
        frame_obligations(it, fn.pre_heap, st.heap, locs, fn.pre_alloc, 'frame')
    except PathEnd as e:
        res.outcome = 'cut'
    except ReplayMismatch as e:
        res.outcome = 'engine-error'
        res.error = 'ENGINE-ERROR ' + str(e)
        st.obligations = []
    except Unsupported as e:
        # the over-approximate feasibility test may have let an impossible path through
        r = solve.discharge(st.all_axioms(), st.pc, z3.BoolVal(False), 5000, want_model=False, use_cli=False)
        if r.verdict == 'discharged':
            res.outcome = 'infeasible'
            st.obligations = []
        else:
            res.outcome = 'unsupported'
            res.error = str(e)
    if res.outcome in ('return', 'raise', 'cut') and DEAD_MS > 0:
        # vacuity guard: a path whose path condition is contradictory proves nothing - it is dropped and does
        # not count as reaching the statements it executed
        r = solve.discharge(st.all_axioms(), st.pc, z3.BoolVal(False), DEAD_MS, want_model=False, use_cli=False)
        if r.verdict == 'discharged':
            res.outcome = 'dead'
            st.obligations = []
    if res.outcome in ('return', 'raise', 'cut'):
        res.covered = set(fn.covered)
    res.obligations = st.obligations
    res.pending = st.pending
    res.assumptions = st.assumptions
    res.trusted = st.trusted
    res.solver_calls = st.solver_calls
    res.notes = st.notes
    return res, st


class FnReport:
    def __init__(self, target):
        self.target = target
        self.paths = 0
        self.outcomes = {}
        self.obligations = {}        # clause -> dict(status, n, time, backend, model)
        self.errors = []
        self.assumptions = set()
        self.trusted = set()
        self.dropped = []
        self.sha = ''
        self.file = ''
        self.lines = (0, 0)
        self.time = 0.0
        self.solver_time = 0.0
        self.normal_paths = 0
        self.vacuity = {}
        self.covered = set()
        self.statements = {}


def explore(reg, c, ex, prefixes, rep, timeout_ms=10000, budget=None, want_models=True, segment=0):
    """depth-first exploration from the given decision prefixes; returns leftover prefixes"""
    work = list(prefixes)
    done = 0
    while work:
        if budget is not None and done >= budget:
            break
        dec = work.pop()
        done += 1
        rep.paths += 1
        if os.environ.get('PYVC_TRACE'):
            print('  path', rep.paths, len(dec), file=sys.stderr, flush=True)
        try:
            res, st = run_path(reg, c, ex, dec, segment)
        except z3.Z3Exception as e:
            rep.errors.append('engine: z3 error %s on path %r' % (e, dec))
            continue
        rep.outcomes[res.outcome] = rep.outcomes.get(res.outcome, 0) + 1
        if os.environ.get('PYVC_PATHLOG'):
            with open(os.environ['PYVC_PATHLOG'], 'a') as _f:
                _f.write('%s\t%d\t%s\t%s\t%s\n' % (c.target, os.getpid(), res.outcome, ''.join('T' if (d[0] if isinstance(d, tuple) else d) else 'F' for d in dec), res.error or ''))
        if res.outcome == 'return':
            rep.normal_paths += 1
        if res.error:
            if res.error not in rep.errors:
                rep.errors.append(res.error)
        rep.assumptions |= res.assumptions
        rep.trusted |= res.trusted
        rep.covered |= res.covered
        rep.feas_calls += st.solver_calls
        rep.feas_time += getattr(st, 'feas_time', 0.0)
        for p in res.pending:
            work.append(p)
        axioms = st.all_axioms()
        for ob in res.obligations:
            r = solve.discharge(axioms, ob.pc, ob.goal, timeout_ms, want_model=want_models, st=st)
            if os.environ.get('PYVC_TRACE'):
                print('    ', ob.clause, r.verdict, r.backend, '%.2f' % r.time, file=sys.stderr, flush=True)
            rep.solver_time += r.time
            slot = rep.obligations.setdefault(ob.clause, {'status': 'discharged', 'n': 0, 'time': 0.0,
                                                          'backends': {}, 'kind': ob.kind, 'model': None,
                                                          'where': ob.where, 'fn': ob.fn})
            slot['n'] += 1
            slot['time'] += r.time
            slot['backends'][r.backend] = slot['backends'].get(r.backend, 0) + 1
            if r.verdict == 'refuted':
                if slot['status'] != 'refuted':
                    slot['status'] = 'refuted'
                    slot['where'] = ob.where
                    slot['segment'] = segment
                    slot['model'] = r.model
                    slot['path'] = list(ob.path)
                    slot['witness'] = witness_values(reg, c, st, r.zmodel) if r.zmodel is not None else {}
            elif r.verdict == 'candidate':
                if slot['status'] in ('discharged', 'undecided'):
                    slot['status'] = 'candidate'
                    slot['where'] = ob.where
                    slot['segment'] = segment
                    slot['model'] = r.model
                    slot['path'] = list(ob.path)
                    slot['detail'] = r.detail
                    slot['witness'] = witness_values(reg, c, st, r.zmodel) if r.zmodel is not None else {}
            elif r.verdict == 'undecided' and slot['status'] == 'discharged':
                slot['status'] = 'undecided'
                slot['detail'] = r.detail
                slot['path'] = list(ob.path)
                slot['segment'] = segment
    return work


def new_report(c):
    rep = FnReport(c.target)
    rep.feas_calls = 0
    rep.feas_time = 0.0
    return rep


def merge_reports(a, b):
    a.paths += b.paths
    for k, v in b.outcomes.items():
        a.outcomes[k] = a.outcomes.get(k, 0) + v
    a.normal_paths += b.normal_paths
    for e in b.errors:
        if e not in a.errors:
            a.errors.append(e)
    a.assumptions |= b.assumptions
    a.trusted |= b.trusted
    a.covered |= b.covered
    a.solver_time += b.solver_time
    a.feas_calls += b.feas_calls
    a.feas_time += b.feas_time
    order = {'discharged': 0, 'undecided': 1, 'candidate': 2, 'refuted': 3}
    for k, v in b.obligations.items():
        if k not in a.obligations:
            a.obligations[k] = v
            continue
        s = a.obligations[k]
        s['n'] += v['n']
        s['time'] += v['time']
        for bk, n in v['backends'].items():
            s['backends'][bk] = s['backends'].get(bk, 0) + n
        if order[v['status']] > order[s['status']]:
            for f in ('status', 'model', 'path', 'witness', 'detail', 'segment', 'where'):
                if f in v:
                    s[f] = v[f]
    return a


def verify_function(reg, c, timeout_ms=10000, want_models=True, max_paths=MAX_PATHS):
    """serial verification of one function (used by tests and small functions)"""
    rep = new_report(c)
    t0 = time.time()
    if getattr(c, 'bind_error', None):
        rep.errors.append(c.bind_error)
        return rep
    try:
        ex = extract(c.target)
    except Unsupported as e:
        rep.errors.append(str(e))
        return rep
    rep.dropped, rep.sha, rep.file = ex.dropped, ex.sha, ex.file
    rep.lines = (ex.node.lineno, ex.node.end_lineno)
    rep.statements = statement_texts(ex)
    for seg in range(len(c.cuts) + 1):
        left = explore(reg, c, ex, [[]], rep, timeout_ms, budget=max_paths, want_models=want_models, segment=seg)
        if left:
            rep.errors.append('more than %d paths' % max_paths)
    rep.time = time.time() - t0
    return rep


# ---------------------------------------------------------------------------------------------
# parallel driver: tasks are (target, decision prefix); a worker explores a bounded number of
# paths below the prefix and hands the remaining prefixes back.

_W = {}


def _worker_init(files):
    reg = Registry()
    for f in files:
        reg.load(f)
    _W['reg'] = reg
    _W['ex'] = {}


def _worker_task(args):
    target, seg, prefixes, timeout_ms, budget = args
    reg = _W['reg']
    c = [x for x in reg.contracts if x.target == target and x.verified][0]
    rep = new_report(c)
    t0 = time.time()
    try:
        if target not in _W['ex']:
            _W['ex'][target] = extract(target)
        ex = _W['ex'][target]
        left = explore(reg, c, ex, prefixes, rep, timeout_ms, budget=budget, segment=seg)
    except Unsupported as e:
        rep.errors.append(str(e))
        left = []
    except Exception as e:      # engine crash: reported, never a verdict
        import traceback
        rep.errors.append('ENGINE-ERROR ' + traceback.format_exc(limit=6))
        left = []
    rep.time = time.time() - t0
    return target, seg, rep, left


def verify_parallel(files, targets, procs=16, timeout_ms=10000, budget=1, max_paths=MAX_PATHS, progress=None):
    """-> {target: FnReport}"""
    import multiprocessing as mp
    ctx = mp.get_context('fork')
    reg = Registry()
    for f in files:
        reg.load(f)
    reports = {}
    tasks = []
    exs = {}
    for c in reg.contracts:
        if not c.verified or (targets is not None and c.target not in targets):
            continue
        rep = new_report(c)
        reports[c.target] = rep
        if getattr(c, 'bind_error', None):
            rep.errors.append(c.bind_error)
            continue
        try:
            ex = extract(c.target)
        except Unsupported as e:
            rep.errors.append(str(e))
            continue
        rep.dropped, rep.sha, rep.file = ex.dropped, ex.sha, ex.file
        rep.lines = (ex.node.lineno, ex.node.end_lineno)
        rep.statements = statement_texts(ex)
        exs[c.target] = ex
        for seg in range(len(c.cuts) + 1):
            tasks.append((c.target, seg, [[]], timeout_ms, budget))
    t0 = time.time()
    # every task runs in a process forked afresh from this one (which never touches the solver): a decision prefix
    # recorded by one worker is replayed by another from the same initial state, so alias resolution and the
    # syntactic shortcuts take the same course; a replay that meets another condition is an ENGINE-ERROR
    _W['reg'] = reg
    _W['ex'] = exs
    with ctx.Pool(procs, maxtasksperchild=1) as pool:
        pending = [pool.apply_async(_worker_task, (t,)) for t in tasks]
        while pending:
            nxt = []
            progressed = False
            for ar in pending:
                if not ar.ready():
                    nxt.append(ar)
                    continue
                progressed = True
                target, seg, part, left = ar.get()
                merge_reports(reports[target], part)
                reports[target].time += part.time
                if reports[target].paths > max_paths:
                    if left:
                        reports[target].errors.append('more than %d paths' % max_paths)
                    continue
                # split leftovers into several tasks to keep all workers busy
                chunk = 1
                for i in range(0, len(left), chunk):
                    nxt.append(pool.apply_async(_worker_task, ((target, seg, left[i:i + chunk], timeout_ms, budget),)))
            pending = nxt
            if not progressed:
                time.sleep(0.05)
            if progress:
                progress(reports)
    return reports, reg


def witness_values(reg, c, st, model):
    """evaluate the contract's witness expressions (and the parameters) in the model"""
    out = {}
    try:
        env = dict(st.env)
        pre = None
        sp = Interp(st, c.glob, reg, None, pure=True, env=env)
        # parameters
        for n, v in list(env.items()):
            if V.is_val(v) and str(v).startswith('a_'):
                out[n] = solve.pyval(model, v)
        for k, node in c.witness.items():
            try:
                spw = Interp(st, c.glob, reg, None, pure=True, env={n: z3.Const('a_' + n, Val) for n in
                                                                    [a.arg for a in c.node.args.args]})
                spw.heap_override = None
                # witness expressions are evaluated over the *initial* heap
                from .engine import Heap
                h0 = Heap(st.fresh_name)
                spw.heap_override = h0
                v = spw.ev(node)
                out[k] = solve.pyval(model, spw.to_val(v) if not hasattr(v, 'seq') else Val.t(v.seq))
            except Exception as e:      # witness extraction is best effort
                out[k] = '<%s>' % e
    except Exception as e:
        out['_error'] = repr(e)
    return out
