"""Per-property configuration of ./check: sidecars, native harness, claimed level."""

PROPS = {
    'C08': {
        'sidecars': ['contracts/c08_static.py'],
        'native': 'c08',
        'level': 'proof',
        'explanation': 'Thresholds of ensure_*/prevent_* proved for all counts from the real source of both '
                       '_check_usage methods; operator tables compared exhaustively with CPython\'s ast classes; '
                       'node finders compared with ast.walk on generated programs (bounded).',
        'trusted_base': ['CaitNode.find_all / find_matches (run-time attached visitors): bounded stand-in B-findall only',
                         'dict/list/len/f-string semantics of the engine (DESIGN.md Appendix B)'],
        'assumptions': ['at_most thresholds are counts (>= 0); the count field name differs from the threshold and '
                        'capacity keys (as at every call site)'],
    },
    'C01': {
        'sidecars': ['contracts/c01_priority.py', 'contracts/c01_merge.py', 'contracts/c03_scoring.py',
                     'contracts/c01_resolve.py'],
        'targets': ['pedal.resolvers.simple:priority_offset', 'pedal.resolvers.simple:by_priority',
                    'pedal.core.final_feedback:parse_feedback', 'pedal.core.final_feedback:FinalFeedback.merge',
                    'pedal.core.final_feedback:FinalFeedback.__init__',
                    'pedal.core.final_feedback:set_correct_no_errors',
                    'pedal.core.final_feedback:FinalFeedback.finalize', 'pedal.core.feedback:Feedback.__bool__',
                    'pedal.core.report:Report.suppress'],
        'clause_exclude': [r'merge\.correct_', r'merge\.success_is', r'merge\.score_', r'finalize\.correct_', r'finalize\.score_',
                           r'finalize\.success_is'],
        'native': 'c01', 'native_arg': {'prop': 'C01'},
        'level': 'proof',
        'explanation': 'Sort key (documented order, aliases, high/medium/low shift), suppression matching with both '
                       'nested loops, eligibility, message installation and the default result are verified from the '
                       'real source for all inputs; the composition through list.sort and the resolve loop is checked '
                       'by the bounded stand-in B-resolve against a reference resolver typed from the statement.',
        'trusted_base': ['list.sort stability and the resolve() loop composition: bounded stand-in B-resolve only',
                         'Score.parse / to_percent_string: assumed contracts (B-score)',
                         'resolve hooks (make_resolver) do not touch feedback lists or suppressions'],
    },
    'C02': {
        'sidecars': ['contracts/c01_priority.py', 'contracts/c01_merge.py', 'contracts/c03_scoring.py',
                     'contracts/c01_resolve.py'],
        'targets': ['pedal.core.final_feedback:FinalFeedback.merge', 'pedal.core.final_feedback:FinalFeedback.finalize',
                    'pedal.core.feedback:Feedback.__bool__', 'pedal.core.final_feedback:set_correct_no_errors'],
        'clause_include': [r'merge\.correct_', r'merge\.success_is', r'merge\.cut', r'merge\.loop', r'merge\.frame',
                           r'merge\.call', r'finalize\.correct_', r'finalize\.success_is', r'finalize\.frame',
                           r'finalize\.raises', r'finalize\.call', r'__bool__', r'set_correct_no_errors'],
        'native': 'c01', 'native_arg': {'prop': 'C02'},
        'level': 'proof',
        'explanation': 'merge: correct becomes the conjunction for eligible feedback and is untouched otherwise; '
                       'finalize: the final correct is the conjunction merge accumulated, on every path. Composition over all '
                       'feedback is the bounded stand-in B-resolve.',
        'trusted_base': ['the resolve() loop composition: bounded stand-in B-resolve only'],
    },
    'C03': {
        'sidecars': ['contracts/c01_priority.py', 'contracts/c01_merge.py', 'contracts/c03_scoring.py',
                     'contracts/c01_resolve.py'],
        'targets': ['pedal.core.scoring:Score.add_to_current', 'pedal.core.scoring:combine_scores',
                    'pedal.core.final_feedback:FinalFeedback.finalize', 'pedal.core.final_feedback:FinalFeedback.merge'],
        'clause_include': [r'add_to_current', r'combine_scores', r'finalize\.score_', r'finalize\.call',
                           r'finalize\.raises', r'finalize\.frame', r'merge\.score_', r'merge\.cut', r'merge\.loop',
                           r'merge\.frame', r'merge\.call', r'merge\.raises'],
        'native': 'c01', 'native_arg': {'prop': 'C03'},
        'level': 'proof',
        'explanation': 'Score.add_to_current (operator x invert table) and combine_scores (fold invariant: total = sum '
                       'of contributions, for every list length) verified; finalize installs that sum unless the '
                       'default all-correct result applies. merge appends exactly one entry per unsuppressed, not-unscored '
                       'feedback carrying a score, marked as not counting exactly when the valence/trigger table of the '
                       'statement says so, and leaves the list alone otherwise (verified, through both cut points). '
                       'Score.parse and the composition over the resolve() loop are covered by the bounded stand-ins '
                       'B-score / B-resolve.',
        'trusted_base': ['Score.parse readings of a score string (inverted, operator, value): assumed, B-score',
                         'floats are exact reals; round(x, 2) is an uninterpreted function (A-float)',
                         'str() of a score and f-string concatenation as the engine models them (str_of, Appendix B)',
                         'the resolve() loop calls merge once per feedback: bounded stand-in B-resolve only'],
    },
    'C15': {
        'sidecars': ['contracts/c15_io.py'],
        'native': 'c15', 'ground': False,
        'level': 'proof',
        'explanation': 'Per-operation two-state contracts of append_output, clear_output, set_input, clear_input and the '
                       'input() replacement (_input_tracker closure) verified from the real source; the history statement '
                       'is their composition (DESIGN.md Appendix C) and is additionally exercised by the bounded stand-in '
                       'B-io on a real Sandbox.',
        'trusted_base': ['str.rstrip / str.split are uninterpreted functions (same symbol in code and specification)',
                         'io.StringIO.getvalue is the concatenation of writes; _stop_mocking/_start_mocking composition: B-io',
                         'print() appends one entry to the ghost sequence `printed`'],
    },
    'C17': {
        'sidecars': ['contracts/c17_sections.py'],
        'native': 'c17',
        'level': 'other',
        'explanation': 'next_section (section index arithmetic, every subscript in bounds, independent chunk + newline-count '
                       'offset, cumulative prefix, exactly one not_enough_sections past the end and no exception), '
                       'stop_sections (original text and filename restored, stack shrinks), the offset setters and '
                       '_calculate_section_number verified from the real source. re.split with the default pattern, '
                       'replace_main and the end-to-end line numbers of the tools are the bounded stand-in B-sections.',
        'trusted_base': ['re.split(pattern with exactly one capturing group) returns alternating code/marker pieces that '
                         'concatenate to the input (ground: the default pattern has one group; custom patterns: not covered)',
                         'Submission.replace_main (property setter): assumed contract, B-sections',
                         'Report.__getitem__/execute_hooks/start_group/stop_group: assumed frames',
                         'not_enough_sections(...) attaches exactly one feedback (Feedback.__init__ is C20)'],
    },
    'C20': {
        'sidecars': ['contracts/c20_feedback.py'],
        'native': 'c20', 'ground': False,
        'level': 'proof',
        'explanation': 'Feedback._handle_condition verified from the real source with condition / message / justification as '
                       'abstract callees (any value, any Exception): appended exactly once, to the triggered list iff the '
                       'condition result is truthy, error path recorded as untriggered with error status and the same '
                       'exception re-raised; Report.add_feedback / add_ignored_feedback for every documented parent kind; '
                       '_get_message precedence; chomp_spec. Feedback.__init__ keyword merging, template rendering through '
                       'the formatter and override()/clear() are the bounded stand-in B-feedback.',
        'trusted_base': ['subclass hooks (condition, _get_message, ...) leave the report lists alone and return a non-object or a '
                         'list that is not one of the report lists',
                         '_get_child_feedback of a parent group and report hooks do not raise',
                         'Feedback.__init__, wrap_fields/FeedbackFieldWrapper.__format__, override/_restore_overrides: bounded only'],
    },
    'C05': {
        'sidecars': ['contracts/c05_patches.py'],
        'more_sidecar_groups': [['contracts/c05_tracer.py'], ['contracts/c14_abandoned.py']],
        'native': 'c05', 'native_arg': {'prop': 'C05'}, 'ground': False,
        'level': 'proof',
        'explanation': '_execute verified from the real source with compile/exec as abstract callees raising ANY exception '
                       'class (symbolic class over the BaseException lattice): on every exit - normal, Exception, SystemExit, '
                       'any other BaseException, a failure inside _capture_exception - both stacks have their entry length, '
                       'every started patch was stopped (ghost counter) and the tracer context manager was exited; '
                       '_start_patches/_stop_patches/_stop_mocking with loop invariants. _start_mocking and what the '
                       'unittest.mock patches restore are observed by the exhaustive bounded product B-sandbox. A worker that '
                       'the waiting thread has abandoned after a timeout stops no patches and pops no buffer however its '
                       'student code ends (second view of _execute, contracts/c14_abandoned.py: those belong to the next '
                       'execution by then). The timeout path itself is C14.',
        'trusted_base': ['unittest.mock patch.start/stop are inverse (ghost counter live_patches)',
                         '_start_mocking pushes one stdout buffer and one group of three started patches (assumed; B-sandbox)',
                         'tracer __enter__/__exit__ install and remove the trace function and do not suppress exceptions',
                         '_capture_exception never touches the patch/stdout stacks'],
    },
    'C04': {
        'sidecars': ['contracts/c04_contain.py'],
        'targets': ['pedal.sandbox.sandbox:Sandbox._execute'],
        'native': 'c05', 'native_arg': {'prop': 'C04'}, 'ground': False,
        'level': 'other',
        'explanation': '_execute verified with compile/exec abstract: no Exception or SystemExit raised by student code leaves '
                       '_execute, at most one runtime feedback is attached per execution and the sandbox exception is set '
                       'exactly when one was attached. That _capture_exception / runtime_error.__init__ themselves never '
                       'raise (broken __str__/__repr__, blocked builtins, recursion) and name the right class and student '
                       'line is only the exhaustive bounded product B-sandbox (21 termination modes x 3 entry points).',
        'trusted_base': ['_capture_exception / runtime_error.__init__ / ExpandedTraceback: assumed total (bounded only)',
                         'run/call/evaluate bodies around _execute: bounded only'],
    },
    'C12': {
        'sidecars': ['contracts/c12_verify.py'],
        'native': 'c12', 'ground': False,
        'level': 'proof',
        'explanation': 'verify() verified from the real source with ast.parse as an abstract callee that returns a tree or '
                       'raises any Exception class: never raises, attaches a syntax/indentation feedback exactly as often as '
                       'the parser raised, sets success False then, stores the tree otherwise, and reports blank text exactly '
                       'when code.strip() is empty. The feedback constructors (line = parser line + offset) and agreement with '
                       'the real parser are the bounded stand-in B-verify.',
        'trusted_base': ['ast.parse outcome shapes (SyntaxError fields) as observed on CPython 3.12',
                         'syntax_error / indentation_error / blank_source constructors: abstract (ghost counters); their line '
                         'arithmetic is bounded only', 'str.strip uninterpreted'],
    },
    'C16': {
        'sidecars': ['contracts/c16_proxy.py'],
        'more_sidecar_groups': [['contracts/c16_handle.py']],
        'native': 'c16',
        'level': 'other',
        'explanation': 'Every arithmetic, bitwise, shift, comparison, conversion, unary, indexing, membership and length '
                       'method of SandboxResult (55 functions, contracts generated from a table typed from the statement) is '
                       'verified from its real source over the operator theory: it applies the right operation to the '
                       'unwrapped operands in the right order, returns a proxy (or, where the protocol demands it, the raw '
                       'result), never the NotImplemented sentinel, and prints nothing (frame of the ghost `printed`). The '
                       'theory treats an operation on raw values as a total uninterpreted function, so "fails iff the raw '
                       'operation fails" and equality with CPython are decided only by the exhaustive bounded product B-ops '
                       '(34 binary/45 unary-style operations x 15 value classes x 3 placements).',
        'trusted_base': ['operator theory A-ops (total uninterpreted operations; never return a proxy)',
                         '_clone_this_result / is_sandbox_result / __getattribute__ magic of the proxy: assumed, B-ops'],
    },
    'C07': {
        'sidecars': ['contracts/c07_assertions.py'],
        'native': 'c07', 'ground': False,
        'level': 'other',
        'explanation': 'The condition of each ordering, length, membership, identity, None-ness and truthiness assertion is '
                       'verified from its real source against a relation table typed from the statement, over the operator '
                       'theory (the raw comparison is an uninterpreted function, so `left >= right` and `not (left < right)` '
                       'are different terms), including the unwrapping of proxied operands; errors() by a loop invariant. '
                       'Equality (tolerance, string normalisation, containers), instance/type/regex/output assertions, the '
                       '"cannot be evaluated counts as failing" rule of RuntimeAssertionFeedback and unit_test are decided '
                       'only by the bounded stand-in B-ops(assertions) on real proxies from a real Sandbox.',
        'trusted_base': ['operator theory A-ops; lengths are integers, whose order relations are complementary',
                         'RuntimeAssertionFeedback.__init__/_handle_condition, equality_test, unit_test: bounded only'],
    },
    'C19': {
        'sidecars': ['contracts/c19_types.py'],
        'quick_skip_targets': ['pedal.types.operations:apply_binary_operation'],
        'native': 'c19',
        'level': 'other',
        'explanation': 'The operand-type domain of the first clause is finite: 12 binary operators and 10 comparisons x the 36 '
                       'ordered pairs of core types (int, float, str, list, tuple, bool) are all run through the real TIFA and '
                       'compared with CPython on representative operands (792 ground obligations, exhaustive-eval). Symbolic: '
                       'the table helper functions and (thorough tier: 729 paths) apply_binary_operation - always a pedal Type, '
                       'AnyType operands passed through, ImpossibleType otherwise - are verified from the real source. '
                       'Expression trees of depth 2 and nested JSON-like values are the bounded stand-in B-types.',
        'trusted_base': ['one representative operand per core type stands for the type (CPython operator dispatch is per type)',
                         'Type constructors / promote / clone: assumed contracts'],
    },
    'C13': {
        'sidecars': ['contracts/c13_history.py'],
        'native': 'c13',
        'level': 'other',
        'explanation': 'Report.clear() is verified from its real source: every container of per-grading state is emptied, scalars '
                       'are reset, pools forgotten, a new Formatter installed, the overridden-classes set emptied, and nothing '
                       'else of the report changes (frame). Ground (complete by evaluation): for every attribute Report.__init__ '
                       'assigns, a dirtied report after clear() equals a fresh Report(). Bounded B-history: all ordered pairs of '
                       'a 14-entry corpus of (script, submission) gradings in one process against fresh-interpreter baselines. '
                       'Executing arbitrary instructor scripts is beyond any contract, so the property itself is not proved.',
        'trusted_base': ['clear_overridden_feedback / override restoration: assumed here, bounded under C20',
                         'tool reset functions, Environment.__init__, command-line modes: bounded only (B-history)'],
    },
    'C18': {
        'sidecars': ['contracts/c18_tifa.py'],
        'native': 'c18', 'ground': False,
        'level': 'other',
        'explanation': 'Proved from the real source: Tifa.process_code never raises whatever Exception the parser or the 1200-line '
                       'visitor (abstract callee) raises, returns its analysis object, flags failure and attaches one system '
                       'feedback per failure; tifa_analysis answers a repeated request from its cache - same object, no analysis '
                       'run, cache and latest untouched - and caches a first request. Bounded (B-tifa-robust): that the analysis '
                       'completes for the introductory subset, that repetition yields the same issues and no extra feedback on '
                       'the real tool, and that issue lines lie within the source.',
        'trusted_base': ['process_ast (the visitor) as an abstract callee: may raise any Exception, touches only analysis data',
                         'system_error attaches exactly one muted system feedback (ghost counter)'],
    },
    'C09': {
        'sidecars': ['contracts/c09_flow.py'],
        'native': 'c09', 'ground': True,
        'level': 'other',
        'explanation': 'Proved from the real source (the diagnosis rules and the merge): load_variable reports an Initialization '
                       'Problem exactly when the name is unknown everywhere or its set flag is no, a Possible Initialization Problem '
                       'exactly when the flag is maybe, an out-of-scope read exactly when the name exists only elsewhere, nothing '
                       'when the flag is yes, and marks the new state read; store_variable makes a new/forced name set-and-unread, '
                       'marks set-but-never-read names overwritten and otherwise resets read; _finish_scope issues one Unused '
                       'Variable per in-scope name whose read flag is no (and is not _) and one Overwritten per over == yes, '
                       'nothing else (counting invariant over the name map); match_rso is the join of the flat yes/no/maybe '
                       'lattice; State.__init__/copy/trace_state keep the flags; combine_states joins both paths and counts an '
                       'absent name as no. The 9 cells of match_rso are also decided by evaluation. What connects these rules to '
                       'programs - the visitors, NewPath, merge_paths, the scope walk find_variable_scope - is covered only by '
                       'the bounded stand-in B-tifa-flow (exhaustive small branch programs vs a branch-outcome oracle; loop and '
                       'function programs vs instrumented real execution).',
        'trusted_base': ['TIFA visitors, NewPath, merge_paths, find_variable_scope / find_variable_out_of_scope (abstract callees '
                         'returning an Identifier), in_scope: bounded part only',
                         'is_subtype / type_changes / locate / _issue and the feedback constructors as abstract callees '
                         '(ghost counters per issue kind)'],
    },
    'C10': {
        'sidecars': ['contracts/c10_cait.py'],
        'native': 'c10', 'ground': False,
        'level': 'other',
        'explanation': 'Proved from the real source (the places where a candidate pairing is kept or dropped): metas_match is the '
                       'field test; AstMap() starts empty; add_node_pairing / add_exp_to_sym_table record exactly the given pair, only '
                       'CaitNodes, and leave every other entry alone; has_conflicts is the emptiness test of conflict_keys; map_merge '
                       'keeps an extension only if the merged map has no conflicting binding and its sibling index is one of the '
                       'candidates and lies to the right of a base sibling (left-to-right order), returns None without candidates; '
                       'binflex_helper (operand swap of + and *) adds only conflict-free maps. Bounded (B-cait-sound): the witness of '
                       'every match the real matcher returns on a generated pattern/program corpus, checked by an independent '
                       'embedding checker. The recursive matcher, shallow_match_main and the symbol tables are bounded only.',
        'trusted_base': ['new_merged_map as an abstract callee returning a new AstMap (its conflict list is what has_conflicts reads)',
                         'deep_find_match*, shallow_match*, add_x_to_sym_table, merge_map_with, any_node_match: bounded part only'],
    },
    'C14': {
        'sidecars': ['contracts/c14_timeout.py'],
        'more_sidecar_groups': [['contracts/c14_abandoned.py']],
        'native': 'c14', 'ground': False,
        'level': 'other',
        'explanation': 'Sequential part proved from the real source: timeout() starts and joins the worker once, terminates it at most '
                       'once, returns only if nobody was terminated and raises a TimeoutError whenever it terminated the worker; '
                       'Sandbox._execute_with_timeout turns a TimeoutError into exactly one captured runtime report, stops the top '
                       'patch group once, returns the sandbox and never lets a TimeoutError escape; other failures travel on '
                       'unreported. The property itself quantifies over interleavings of two threads on unsynchronised state, '
                       'which no function contract expresses: the bounded stand-in B-timeout-schedules forces each ordering of the '
                       'two handlers and of the next execution through the guarded hook points on real threads.',
        'trusted_base': ['InterruptableThread.start/join/is_alive/terminate and ctypes async exception delivery: abstract callees',
                         '_stop_patches (verified under C04/C05) and _capture_exception (bounded under C04) as assumed contracts',
                         'thread interleavings: only the 5 forced orderings x 9 programs of the bounded stand-in'],
    },
}
