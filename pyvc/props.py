"""Per-property configuration of ./check: sidecars, native harness, claimed level."""

PROPS = {
    'C08': {
        'sidecars': ['contracts/c08_static.py'],
        'native': 'c08',
        'level': 'proof',
        'explanation': 'Thresholds of ensure_*/prevent_* proved for all counts from the real source of both '
                       '_check_usage methods; operator tables compared exhaustively with CPython\'s ast classes; '
                       'node finders compared with ast.walk on generated programs (bounded).',
        'trusted_base': ['CaitNode.find_all / find_matches (run-time attached visitors): bounded stand-in B-findall only',
                         'dict/list/len/f-string semantics of the engine (DESIGN.md Appendix B)'],
        'assumptions': ['at_most thresholds are counts (>= 0); the count field name differs from the threshold and '
                        'capacity keys (as at every call site)'],
    },
}
