"""Sidecar contracts: parsing, registry, modular application at call sites, frames.

A sidecar is a Python file that is *parsed, never executed*: module-level imports are
honoured (to name live classes of /repo), module-level literal constants become
specification constants, `@spec` functions become inlinable pure functions and
`@target/@assumed` functions carry clauses (DESIGN.md section 2.4).
"""
import ast
import importlib
import inspect
import os
import z3
from . import vals as V
from .vals import Val, SeqVal
from .engine import Unsupported, PathEnd, PyRaise, PyConst, SeqV, Closure, Heap
from .interp import (Interp, SpecFn, LocAttr, LocItems, LocDict, LocAllAttrs, LocClassAttr, LocGhost, FnCtx)


class Clause:
    def __init__(self, kind, name, node, extra=None):
        self.kind, self.name, self.node, self.extra = kind, name, node, extra


class Invariant:
    def __init__(self, loop, name, node, modifies):
        self.loop, self.name, self.node, self.modifies = loop, name, node, modifies


class Cut:
    def __init__(self, name, before, nodes, modifies):
        self.name, self.before, self.nodes, self.modifies = name, before, nodes, modifies


class Abstract:
    def __init__(self, pattern, contract):
        self.pattern, self.contract = pattern, contract


class Contract:
    def __init__(self, name, target, node, glob, file, verified, reason=''):
        self.name = name                # display name
        self.target = target            # "module:qualname" or symbolic name ("list.sort")
        self.node = node
        self.glob = glob
        self.file = file
        self.verified = verified
        self.reason = reason
        self.clauses = []               # ordered: let / requires / ensures / ...
        self.modifies = []
        self.invariants = []
        self.abstracts = []
        self.cuts = []
        self.raises_nothing = False
        self.raises_only = None         # list of classes
        self.witness = {}
        self.unroll = {}
        self.pyobj = None
        self.pycls = None
        self.method_name = None
        self.options = {}

    def may_raise(self):
        return not self.raises_nothing

    def describe(self):
        return '%s [%s]%s' % (self.target, 'verified' if self.verified else 'assumed',
                              (': ' + self.reason) if self.reason else '')

    def params(self):
        return self.node.args


def _const_str(node):
    return node.value if isinstance(node, ast.Constant) and isinstance(node.value, str) else None


class Registry:
    def __init__(self):
        self.contracts = []
        self.by_obj = {}
        self.by_name = {}
        self.by_method = {}           # method name -> [(pycls, contract)]
        self.spec_names = {}
        self.bool_hooks = []          # [(pycls, fn(interp, val)->Bool)]
        self.heap_class_attrs = set() # (class, name) whose class attribute lives in the heap
        self.files = []
        self.lemmas = []
        self.class_consts = {}        # attr name -> [(pycls, value)]
        self.property_get = {}        # attr name -> [(pycls, SpecFn)]
        self.instance_classes = []

    # -- loading ------------------------------------------------------------------------------
    def load(self, path):
        src = open(path).read()
        tree = ast.parse(src, path)
        glob = {}
        self.files.append(path)
        for node in tree.body:
            if isinstance(node, ast.Expr) and isinstance(node.value, ast.Constant):
                continue
            if isinstance(node, ast.ImportFrom):
                if node.module and node.module.startswith('pyvc'):
                    continue
                mod = importlib.import_module(node.module)
                for a in node.names:
                    glob[a.asname or a.name] = getattr(mod, a.name)
            elif isinstance(node, ast.Import):
                for a in node.names:
                    m = importlib.import_module(a.name)
                    glob[a.asname or a.name.split('.')[0]] = m if a.asname else importlib.import_module(a.name.split('.')[0])
            elif isinstance(node, ast.Assign) and len(node.targets) == 1 and isinstance(node.targets[0], ast.Name):
                glob[node.targets[0].id] = eval(compile(ast.Expression(node.value), path, 'eval'), dict(glob))
            elif isinstance(node, ast.FunctionDef):
                self._load_def(node, glob, path)
            else:
                raise SyntaxError('%s:%d: unsupported top-level statement in sidecar' % (path, node.lineno))
        for pycls, names in glob.get('CLASS_CONSTS', {}).items():
            for n in names:
                ent = (pycls, getattr(pycls, n))
                if ent not in self.class_consts.setdefault(n, []):
                    self.class_consts[n].append(ent)
        for pycls, props in glob.get('PROPERTY_GET', {}).items():
            for n, specname in props.items():
                ent = (pycls, self.spec_names[specname])
                if ent not in self.property_get.setdefault(n, []):
                    self.property_get[n].append(ent)
        for pycls in glob.get('INSTANCE_CLASSES', []):
            if pycls not in self.instance_classes:
                self.instance_classes.append(pycls)
                V.cid_of(pycls)
        if not hasattr(self, 'theory_never_returns'):
            self.theory_never_returns = []
        for pycls in glob.get('THEORY_NEVER_RETURNS', []):
            if pycls not in self.theory_never_returns:
                self.theory_never_returns.append(pycls)
        for pycls, names in glob.get('HEAP_CLASS_ATTRS', {}).items():
            for n in names:
                self.heap_class_attrs.add((pycls, n))
        if not hasattr(self, 'sequence_view'):
            self.sequence_view = []
        for pycls, attr in glob.get('SEQUENCE_VIEW', {}).items():
            if (pycls, attr) not in self.sequence_view:
                self.sequence_view.append((pycls, attr))
                V.cid_of(pycls)
        for pycls, specname in glob.get('TRUTH', {}).items():
            sf = self.spec_names[specname]
            self.bool_hooks.append((pycls, (lambda sf: lambda it, v: it.sub(pure=True).truth(it.sub(pure=True).call_spec(sf, [v], {})))(sf)))
        return glob

    def _load_def(self, node, glob, path):
        decos = node.decorator_list
        if not decos:
            raise SyntaxError('%s:%d: sidecar function without decorator' % (path, node.lineno))
        d = decos[0]
        dname = d.id if isinstance(d, ast.Name) else d.func.id
        dargs = [] if isinstance(d, ast.Name) else d.args
        dkw = {} if isinstance(d, ast.Name) else {k.arg: k.value for k in d.keywords}
        if dname == 'spec':
            sf = SpecFn(node.name, node, glob, path)
            self.spec_names[node.name] = sf
            glob[node.name] = sf
            return
        if dname in ('target', 'assumed', 'abstract_method'):
            target = _const_str(dargs[0])
            reason = _const_str(dargs[1]) if len(dargs) > 1 else ''
            c = Contract(node.name, target, node, glob, path, verified=(dname == 'target'), reason=reason or '')
            for k, v in dkw.items():
                c.options[k] = ast.literal_eval(v)
            self._parse_body(c, node.body, path)
            self._bind(c)
            self.contracts.append(c)
            return
        if dname == 'lemma':
            c = Contract(node.name, 'lemma:' + node.name, node, glob, path, verified=True)
            self._parse_body(c, node.body, path)
            self.lemmas.append(c)
            self.by_name['lemma:' + node.name] = c
            return
        raise SyntaxError('%s:%d: unknown decorator %s' % (path, node.lineno, dname))

    def _parse_body(self, c, body, path):
        counters = {}

        def auto(kind):
            counters[kind] = counters.get(kind, 0) + 1
            return '%s#%d' % (kind, counters[kind])
        for stmt in body:
            if isinstance(stmt, ast.Expr) and isinstance(stmt.value, ast.Constant):
                continue
            if isinstance(stmt, ast.Pass):
                continue
            if not (isinstance(stmt, ast.Expr) and isinstance(stmt.value, ast.Call) and
                    isinstance(stmt.value.func, ast.Name)):
                raise SyntaxError('%s:%d: contract bodies contain clause calls only' % (path, stmt.lineno))
            call = stmt.value
            kind = call.func.id
            args = list(call.args)
            kw = {k.arg: k.value for k in call.keywords}
            name = None
            if args and _const_str(args[0]) is not None and kind not in ('abstract', 'uses_lemma'):
                name = _const_str(args[0])
                args = args[1:]
            if kind in ('requires', 'ensures', 'on_any_exit', 'define'):
                for a in args:
                    c.clauses.append(Clause(kind, name or auto(kind), a))
            elif kind == 'let':
                for k, v in kw.items():
                    c.clauses.append(Clause('let', k, v))
            elif kind == 'modifies':
                c.modifies += args
            elif kind == 'raises_nothing':
                c.raises_nothing = True
            elif kind == 'raises_only':
                c.raises_only = args
            elif kind == 'ensures_raises':
                c.clauses.append(Clause('ensures_raises', name or auto('ensures_raises'), args[1], extra=args[0]))
            elif kind == 'invariant':
                loop = ast.literal_eval(args[0])
                iname = _const_str(args[1]) if len(args) > 2 or (len(args) == 2 and _const_str(args[1])) else None
                exprs = args[2:] if iname else args[1:]
                mods = list(kw['modifies'].elts) if 'modifies' in kw else []
                for j, e in enumerate(exprs):
                    c.invariants.append(Invariant(loop, iname or auto('inv'), e, mods if j == 0 else []))
                if not exprs and mods:
                    c.invariants.append(Invariant(loop, iname or auto('inv'), ast.Constant(True), mods))
            elif kind == 'abstract':
                pattern = _const_str(args[0])
                ac = Contract(pattern, 'abstract:' + pattern, None, c.glob, c.file, verified=False,
                              reason='abstract callee (student/subclass controlled)')
                ac.abstract_params = [a.arg for a in c.node.args.args]
                if 'raises' in kw:
                    ac.raises_only = [kw['raises']] if not isinstance(kw['raises'], ast.Tuple) else list(kw['raises'].elts)
                    if isinstance(kw['raises'], ast.Constant) and kw['raises'].value is None:
                        ac.raises_nothing = True
                        ac.raises_only = None
                else:
                    ac.raises_nothing = True
                if 'modifies' in kw:
                    ac.modifies = list(kw['modifies'].elts)
                if 'ensures' in kw:
                    es = kw['ensures'].elts if isinstance(kw['ensures'], (ast.List, ast.Tuple)) else [kw['ensures']]
                    for e in es:
                        ac.clauses.append(Clause('ensures', auto('abs_ensures'), e))
                if 'on_any_exit' in kw:
                    es = kw['on_any_exit'].elts if isinstance(kw['on_any_exit'], (ast.List, ast.Tuple)) else [kw['on_any_exit']]
                    for e in es:
                        ac.clauses.append(Clause('on_any_exit', auto('abs_on_any_exit'), e))
                ac.is_abstract = True
                ac.label = _const_str(kw['label']) if 'label' in kw else pattern
                c.abstracts.append(Abstract(pattern, ac))
            elif kind == 'cut':
                before = ast.unparse(ast.parse(_const_str(kw['before'])).body[0])
                mods = list(kw['modifies'].elts) if 'modifies' in kw else None
                c.cuts.append(Cut(name or auto('cut'), before, args, mods))
            elif kind == 'witness':
                for k, v in kw.items():
                    c.witness[k] = v
            elif kind == 'unroll':
                c.unroll[ast.literal_eval(args[0])] = ast.literal_eval(args[1])
            elif kind == 'uses_lemma':
                c.clauses.append(Clause('uses_lemma', _const_str(args[0]), args[1:]))
            elif kind == 'bool_hook':
                pass
            else:
                raise SyntaxError('%s:%d: unknown clause %s' % (path, stmt.lineno, kind))

    def _bind(self, c):
        t = c.target
        if ':' in t:
            modname, qual = t.split(':')
            try:
                mod = importlib.import_module(modname)
            except Exception as e:       # the function's module no longer imports
                c.bind_error = 'cannot import %s: %r' % (modname, e)
                return
            obj = mod
            owner = None
            try:
                for part in qual.split('.'):
                    if part == '<locals>':
                        obj = None
                        break
                    owner, obj = obj, getattr(obj, part)
            except AttributeError:
                c.bind_error = '%s has no %s' % (modname, qual)
                return
            if obj is not None:
                raw = obj
                if isinstance(owner, type):
                    raw = owner.__dict__.get(qual.split('.')[-1], obj)
                if isinstance(raw, (staticmethod, classmethod)):
                    c.options.setdefault('binding', type(raw).__name__)
                    raw = raw.__func__
                if isinstance(raw, property):
                    c.options.setdefault('binding', 'property')
                    raw = raw.fget
                c.pyobj = raw
                seen = set()
                while raw is not None and id(raw) not in seen:
                    seen.add(id(raw))
                    self.by_obj[id(raw)] = c
                    raw = getattr(raw, '__wrapped__', None)
                self.by_obj[id(obj)] = c
                if isinstance(owner, type):
                    c.pycls = owner
                    c.method_name = qual.split('.')[-1]
                    self.by_method.setdefault(c.method_name, []).append((owner, c))
        else:
            self.by_name[t] = c

    # -- lookups ---------------------------------------------------------------------------------
    def function_contract(self, obj):
        c = self.by_obj.get(id(obj))
        if c is None and hasattr(obj, '__func__'):
            c = self.by_obj.get(id(obj.__func__))
        if c is None and hasattr(obj, '__wrapped__'):
            c = self.by_obj.get(id(obj.__wrapped__))
        return c

    def named_contract(self, name):
        return self.by_name.get(name)

    def method_contract(self, it, recv, name, node=None):
        cands = self.by_method.get(name, [])
        if not cands:
            return None
        cands = sorted(cands, key=lambda pc: -len(pc[0].__mro__))
        cls = it.st.cls_of(Val.ref(recv))
        for pycls, c in cands:
            if it.st.branch(V.subclass(cls, z3.IntVal(V.cid_of(pycls)))):
                it.st.assumptions.add('A-dispatch: %s.%s is not overridden by a subclass without its own contract'
                                      % (pycls.__name__, name))
                return c
        return None

    def abstract_for(self, it, node):
        if it.fn is None or it.fn.contract is None or node is None:
            return None
        full = ast.unparse(node)
        for a in it.fn.contract.abstracts:
            if a.pattern == full:
                return a.contract
        text = ast.unparse(node.func)
        for a in it.fn.contract.abstracts:
            if a.pattern == text:
                return a.contract
        return None

    def class_attr_is_heap(self, pycls, name):
        return (pycls, name) in self.heap_class_attrs or ('*', name) in self.heap_class_attrs


# ---------------------------------------------------------------------------------------------
# evaluation of clauses

def spec_interp(it, glob, env, old=None, specials=None):
    sp = Interp(it.st, glob, it.reg, it.fn, pure=True, env=env, old=old, specials=specials or {})
    return sp


def eval_clause(it, node, specials):
    """loop invariants: evaluated in the *current* code environment"""
    c = it.fn.contract
    old = (it.fn.pre_heap, it.fn.pre_env)
    env = dict(it.fn.pre_env or {})
    env.update(it.env)
    sp = Interp(it.st, c.glob if c else it.glob, it.reg, it.fn, pure=True, env=env, old=old,
                specials=dict(specials, __pre_alloc__=it.fn.pre_alloc))
    sp.code_glob = it.glob
    return sp.truth(sp.ev(node))


def eval_locs(it, nodes, heap=None, env=None):
    locs = []
    for n in nodes:
        locs += eval_loc(it, n, heap, env)
    return locs


def eval_loc(it, node, heap=None, env=None):
    c = it.fn.contract if it.fn else None
    sp = Interp(it.st, getattr(it, 'loc_glob', None) or (c.glob if c else it.glob), it.reg, it.fn, pure=True,
                env=dict(env if env is not None else it.env), old=it.old, specials=it.specials)
    sp.heap_override = heap
    if isinstance(node, ast.Attribute):
        base = sp.ev(node.value)
        if isinstance(base, PyConst) and isinstance(base.obj, type):
            return [LocClassAttr(z3.IntVal(V.cid_of(base.obj)), node.attr)]
        return [LocAttr(Val.ref(sp.to_val(base)), node.attr)]
    if isinstance(node, ast.Call) and isinstance(node.func, ast.Name):
        f = node.func.id
        if f == 'items':
            return [LocItems(Val.ref(sp.to_val(sp.ev(node.args[0]))))]
        if f in ('mapping', 'dict_of', 'keys'):
            return [LocDict(Val.ref(sp.to_val(sp.ev(node.args[0]))))]
        if f == 'attrs':
            return [LocAllAttrs(Val.ref(sp.to_val(sp.ev(node.args[0]))))]
        if f == 'attr_of_any':
            return [LocAttr(None, node.args[0].value)]
        if f == 'ghost':
            return [LocGhost(node.args[0].value)]
        if f == 'class_attr_of_any':
            return [LocClassAttr(None, node.args[0].value)]
        if f == 'items_of_any':
            return [LocItems(None)]
        if f == 'dict_of_any':
            return [LocDict(None)]
        if f == 'everything':
            return [LocItems(None), LocDict(None), LocAllAttrs(None)]
    raise Unsupported('modifies target %s' % ast.unparse(node))


def havoc_locs(it, locs):
    st = it.st
    h = st.heap
    for loc in locs:
        if isinstance(loc, LocAttr):
            k = ('attr', loc.name)
            if loc.ref is None:
                h.get(k)
                h.set(k, z3.Const(st.fresh_name('hv_' + loc.name), Heap.sort_of(k)))
            else:
                h.set(k, z3.Store(h.get(k), loc.ref, st.fresh('hv_' + loc.name)))
        elif isinstance(loc, LocItems):
            if loc.ref is None:
                h.get('list')
                h.set('list', z3.Const(st.fresh_name('hv_list'), Heap.sort_of('list')))
            else:
                h.set('list', z3.Store(h.get('list'), loc.ref, st.fresh('hv_items', SeqVal)))
        elif isinstance(loc, LocDict):
            if loc.ref is None:
                h.get('dkeys'), h.get('dmap')
                h.set('dkeys', z3.Const(st.fresh_name('hv_dkeys'), Heap.sort_of('dkeys')))
                h.set('dmap', z3.Const(st.fresh_name('hv_dmap'), Heap.sort_of('dmap')))
            else:
                h.set('dkeys', z3.Store(h.get('dkeys'), loc.ref, st.fresh('hv_dkeys', SeqVal)))
                h.set('dmap', z3.Store(h.get('dmap'), loc.ref, st.fresh('hv_dmap', z3.ArraySort(Val, Val))))
        elif isinstance(loc, LocAllAttrs):
            if loc.ref is None:
                for key in list(h.arrs):
                    if isinstance(key, tuple) and key[0] == 'attr':
                        h.arrs[key] = z3.Const(st.fresh_name('hv_%s' % key[1]), Heap.sort_of(key))
                st.notes.append('havoc of every attribute: attributes first used later are not havocked')
            else:
                st._n += 1
                serial = st._n
                for key in list(h.arrs):
                    if isinstance(key, tuple) and key[0] == 'attr':
                        h.arrs[key] = z3.Store(h.arrs[key], loc.ref, z3.Const('hv%d_%s_%s' % (serial, key[0], key[1]), Val))
                h.havocs.append((loc.ref, serial))
        elif isinstance(loc, LocClassAttr):
            k = ('cattr', loc.name)
            if loc.cid is None:
                h.get(k)
                h.set(k, z3.Const(st.fresh_name('hv_c_' + loc.name), Heap.sort_of(k)))
            else:
                h.set(k, z3.Store(h.get(k), loc.cid, st.fresh('hv_c_' + loc.name)))
        elif isinstance(loc, LocGhost):
            if loc.name == 'printed':
                h.ghost['printed'] = z3.Const(st.fresh_name('hv_printed'), SeqVal)
            elif loc.name in h.ghost and h.ghost[loc.name].sort() == Val and V.tagname(h.ghost[loc.name]) != 'i' \
                    and str(h.ghost[loc.name]).startswith(('G0v_', 'ghostv_')):
                h.ghost[loc.name] = z3.Const(st.fresh_name('ghostv_' + loc.name), Val)
            elif loc.name in ('trace_fn', 'captured') or loc.name.endswith('_value'):
                h.ghost[loc.name] = z3.Const(st.fresh_name('ghostv_' + loc.name), Val)
            else:
                h.ghost[loc.name] = Val.i(z3.Int(st.fresh_name('ghost_' + loc.name)))


def frame_obligations(it, before, after, locs, alloc_before, clause):
    st = it.st
    # ghost effects (e.g. `printed`) not listed in the frame must not happen
    allowed = set(l.name for l in locs if isinstance(l, LocGhost))
    for name, val in after.ghost.items():
        if name in allowed or name.startswith('raised_'):
            continue
        prev = before.ghost.get(name)
        if prev is None:
            prev = z3.Const('G0_' + name, val.sort()) if val.sort() != Val else (
                z3.Const('G0v_' + name, Val) if name == 'trace_fn' else Val.i(z3.Int('G0_' + name)))
        if not prev.eq(val):
            st.oblige(it.fn.qual, '%s[ghost:%s]' % (clause, name), 'frame', prev == val)
    keys = list(dict.fromkeys(list(before.arrs) + list(after.arrs)))
    for key in keys:
        a0, a1 = before.get(key), after.get(key)
        if a0.eq(a1):
            continue
        if key == 'cls':
            # classes only change by allocation; checked like any other cell
            pass
        r = st.fresh('fr', V.I)
        excl = []
        whole = False
        for loc in locs:
            if isinstance(loc, LocAttr) and key == ('attr', loc.name):
                if loc.ref is None:
                    whole = True
                else:
                    excl.append(r != loc.ref)
            elif isinstance(loc, LocItems) and key == 'list':
                if loc.ref is None:
                    whole = True
                else:
                    excl.append(r != loc.ref)
            elif isinstance(loc, LocDict) and key in ('dkeys', 'dmap'):
                if loc.ref is None:
                    whole = True
                else:
                    excl.append(r != loc.ref)
            elif isinstance(loc, LocAllAttrs) and isinstance(key, tuple) and key[0] == 'attr':
                if loc.ref is None:
                    whole = True
                else:
                    excl.append(r != loc.ref)
            elif isinstance(loc, LocClassAttr) and key == ('cattr', loc.name):
                if loc.cid is None:
                    whole = True
                else:
                    excl.append(r != loc.cid)
        if whole:
            continue
        guard = list(excl)
        if not (isinstance(key, tuple) and key[0] == 'cattr'):
            guard.append(r < alloc_before)
            guard.append(r >= 0)
        name = key if isinstance(key, str) else '%s:%s' % key
        st.oblige(it.fn.qual, '%s[%s]' % (clause, name), 'frame',
                  z3.Implies(z3.And(*guard) if guard else z3.BoolVal(True), z3.Select(a1, r) == z3.Select(a0, r)))


# ---------------------------------------------------------------------------------------------
# modular call

def bind_params(it, c, args, kwargs, params=None):
    params = params or c.node.args
    names = [a.arg for a in params.posonlyargs + params.args]
    env = {}
    if len(args) > len(names) and params.vararg is None:
        raise Unsupported('too many positional arguments for contract %s' % c.name)
    for n, a in zip(names, args):
        env[n] = a
    if params.vararg is not None:
        extra = list(args[len(names):])
        env[params.vararg.arg] = V.mk_tuple([it.to_val(x) for x in extra])
    kwonly = [a.arg for a in params.kwonlyargs]
    star = kwargs.pop('**', None) if isinstance(kwargs, dict) and '**' in kwargs else None
    kwargs = dict(kwargs)
    for k, v in kwargs.items():
        if k in names or k in kwonly:
            env[k] = v
        elif params.kwarg is None:
            raise Unsupported('unexpected keyword %s for contract %s' % (k, c.name))
    if star is not None and params.kwarg is None:
        raise Unsupported('** argument for contract %s without a **kwargs parameter' % c.name)
    if params.kwarg is not None:
        extra = {k: v for k, v in kwargs.items() if k not in names and k not in kwonly}
        env[params.kwarg.arg] = star if star is not None else ('kwargs', extra)
    defaults = params.defaults
    sp = Interp(it.st, c.glob, it.reg, it.fn, pure=True, env=env)
    for i, n in enumerate(names):
        if n not in env:
            di = i - (len(names) - len(defaults))
            if di < 0:
                raise Unsupported('missing argument %s for contract %s' % (n, c.name))
            env[n] = sp.ev(defaults[di])
    for a, d in zip(params.kwonlyargs, params.kw_defaults):
        if a.arg not in env:
            if d is None:
                raise Unsupported('missing keyword-only argument %s' % a.arg)
            env[a.arg] = sp.ev(d)
    return env


def apply_contract(it, c, args, kwargs):
    st = it.st
    if getattr(c, 'is_abstract', False):
        return apply_abstract(it, c, args, kwargs)
    if getattr(c, 'bind_error', None):
        raise Unsupported('contract %s: %s' % (c.name, c.bind_error))
    env = bind_params(it, c, args, kwargs)
    caller = it.fn.qual if it.fn else '?'
    scope = st.fresh_name('@' + c.name)
    sp = Interp(st, c.glob, it.reg, it.fn, pure=True, env=env)
    sp.scope = scope
    for cl in c.clauses:
        if cl.kind == 'let':
            from .verify import name_quantified
            env[cl.name] = name_quantified(st, cl.name, sp.ev(cl.node), sp)
        elif cl.kind == 'define':
            st.assume(sp.truth(sp.ev(cl.node)))
        elif cl.kind == 'requires':
            goal = sp.truth(sp.ev(cl.node))
            if it.pure:
                continue
            st.oblige(caller, 'call[%s].%s' % (c.name, cl.name), 'call-pre', goal)
    if it.pure:
        if c.modifies or c.may_raise():
            raise Unsupported('impure function %s called inside a specification' % c.name)
    pre_heap = st.heap.copy()
    pre_env = dict(env)
    pre_alloc = st.alloc
    lsp = Interp(st, c.glob, it.reg, it.fn, pure=True, env=env)
    locs = []
    for n in c.modifies:
        lsp.loc_glob = c.glob
        locs += eval_loc_with(lsp, n)
    havoc_locs(it, locs)
    if not it.pure:
        a2 = st.fresh('alloc', V.I)
        st.assume(a2 >= st.alloc)
        st.alloc = a2
    result = st.fresh('ret_' + c.name)
    st.assume(z3.Implies(Val.is_o(result), Val.ref(result) < st.alloc))
    st.assume(result != V.ABSENT)
    specials = {'result': result, '__pre_alloc__': pre_alloc}
    post = Interp(st, c.glob, it.reg, it.fn, pure=True, env=env, old=(pre_heap, pre_env), specials=specials)
    post.scope = scope
    if not c.verified:
        st.trusted.add(c.describe())
    if c.may_raise() and not it.pure:
        flag = st.fresh('raises_' + c.name, V.B)
        if st.branch(flag):
            exc = new_symbolic_exception(it, c.raises_only, c.glob)
            specials_r = dict(specials, raised=exc)
            postr = Interp(st, c.glob, it.reg, it.fn, pure=True, env=env, old=(pre_heap, pre_env), specials=specials_r)
            postr.scope = scope
            for cl in c.clauses:
                if cl.kind == 'ensures_raises':
                    ecls = postr.ev(cl.extra)
                    m = exc_matches(it, exc, ecls)
                    st.assume(z3.Implies(m, postr.truth(postr.ev(cl.node))))
                elif cl.kind == 'on_any_exit':
                    st.assume(postr.truth(postr.ev(cl.node)))
            raise PyRaise(exc, origin=c.name)
    for cl in c.clauses:
        if cl.kind in ('ensures', 'on_any_exit'):
            st.assume(post.truth(post.ev(cl.node)))
    return result


def eval_loc_with(sp, node):
    """eval_loc using an already-built specification interpreter"""
    class _It:
        pass
    shim = _It()
    shim.st, shim.reg, shim.fn, shim.env, shim.old, shim.specials, shim.glob = \
        sp.st, sp.reg, None, sp.env, sp.old, sp.specials, sp.glob
    shim.loc_glob = sp.glob
    return eval_loc(shim, node, None, sp.env)


def exc_matches(it, exc, ecls):
    cls = it.st.cls_of(Val.ref(exc))
    classes = []
    if isinstance(ecls, PyConst) and isinstance(ecls.obj, type):
        classes = [ecls.obj]
    elif isinstance(ecls, PyConst) and isinstance(ecls.obj, tuple):
        classes = list(ecls.obj)
    else:
        from .pybuiltins import _class_list
        classes = _class_list(it, ecls)
    return z3.Or(*[V.subclass(cls, z3.IntVal(V.cid_of(k))) for k in classes])


def new_symbolic_exception(it, raises_only_nodes, glob):
    st = it.st
    r = st.new_ref()
    k = st.fresh('exc_cls', V.I)
    st.sym_classes.append(k)
    st.set_cls(r, k)
    exc = Val.o(r)
    sp = Interp(st, glob, it.reg, it.fn, pure=True, env={})
    classes = [BaseException]
    if raises_only_nodes:
        classes = []
        for n in raises_only_nodes:
            v = sp.ev(n)
            if isinstance(v, PyConst) and isinstance(v.obj, type):
                classes.append(v.obj)
            elif isinstance(v, PyConst) and isinstance(v.obj, tuple):
                classes += list(v.obj)
            else:
                raise Unsupported('raises= needs class constants')
    st.assume(z3.Or(*[V.subclass(k, z3.IntVal(V.cid_of(c))) for c in classes]))
    st.assume(V.subclass(k, z3.IntVal(V.cid_of(BaseException))))
    # shapes of builtin exception instances (CPython's own constructors guarantee these fields)
    is_syntax = V.subclass(k, z3.IntVal(V.cid_of(SyntaxError)))
    for name in ('lineno', 'offset', 'filename', 'msg', 'text', 'end_lineno', 'end_offset'):
        v = st.raw_attr(r, name)
        st.assume(z3.Implies(is_syntax, v != V.ABSENT))
        if name in ('lineno', 'offset', 'end_lineno', 'end_offset'):
            st.assume(z3.Implies(is_syntax, z3.Or(Val.is_none(v), Val.is_i(v))))
        elif name == 'msg':
            st.assume(z3.Implies(is_syntax, Val.is_s(v)))
        else:
            st.assume(z3.Implies(is_syntax, z3.Or(Val.is_none(v), Val.is_s(v))))
    st.assume(st.raw_attr(r, '__traceback__') != V.ABSENT)
    st.assume(st.raw_attr(r, 'args') != V.ABSENT)
    st.trusted.add('instances of SyntaxError carry lineno/offset/end_* (int or None), msg (str), filename/text (str or None)')
    return exc


def apply_abstract(it, ac, args, kwargs):
    """student/subclass controlled callee: any value, any listed exception, stated frame"""
    st = it.st
    if it.pure:
        raise Unsupported('abstract callee inside a specification')
    label = ac.label
    st.trusted.add('abstract callee %s: returns any value or raises %s; modifies only %s%s' % (
        label, 'nothing' if ac.raises_nothing else ', '.join(ast.unparse(n) for n in (ac.raises_only or [])) or 'BaseException',
        ', '.join(ast.unparse(n) for n in ac.modifies) or 'nothing',
        ''.join('; assumed on every exit: ' + ast.unparse(cl.node) for cl in ac.clauses if cl.kind == 'on_any_exit')))
    locs = eval_locs(it, ac.modifies)
    pre_heap = st.heap.copy()
    pre_alloc = st.alloc
    havoc_locs(it, locs)
    a2 = st.fresh('alloc', V.I)
    st.assume(a2 >= st.alloc)
    st.alloc = a2
    if not ac.raises_nothing:
        flag = st.fresh('raises_' + label.replace('.', '_'), V.B)
        if st.branch(flag):
            exc = new_symbolic_exception(it, ac.raises_only, ac.glob)
            it.fn.abstract_log.append((label, 'raise', exc))
            # ghost counter: how often this abstract callee has raised
            gname = 'raised_' + label
            cur = st.heap.ghost.get(gname)
            if cur is None:
                cur = Val.i(z3.Int('G0_' + gname))
            st.heap.ghost[gname] = Val.i(Val.iv(cur) + 1)
            exits = [cl for cl in ac.clauses if cl.kind == 'on_any_exit']
            if exits:
                postr = Interp(st, ac.glob, it.reg, it.fn, pure=True, env=dict(it.env), old=(pre_heap, dict(it.env)),
                               specials={'raised': exc, '__pre_alloc__': pre_alloc})
                for cl in exits:
                    st.assume(postr.truth(postr.ev(cl.node)))
            raise PyRaise(exc, origin=label)
    result = st.fresh('ret_' + label.replace('.', '_'))
    st.assume(z3.Implies(Val.is_o(result), Val.ref(result) < st.alloc))
    st.assume(result != V.ABSENT)
    if ac.clauses:
        env = dict(it.env)
        for i, a in enumerate(args):
            env['arg%d' % i] = a
        post = Interp(st, ac.glob, it.reg, it.fn, pure=True, env=env, old=(pre_heap, dict(it.env)),
                      specials={'result': result, '__pre_alloc__': pre_alloc})
        for cl in ac.clauses:
            st.assume(post.truth(post.ev(cl.node)))
    it.fn.abstract_log.append((label, 'return', result))
    return result
