"""Expression / statement interpreter over the real `ast` of /repo functions and of
sidecar contract expressions (same evaluator, `pure=True` for specifications)."""
import ast
import builtins as _builtins
import types as _types
import z3
from . import vals as V
from .vals import Val, SeqVal
from .engine import (Unsupported, PathEnd, PyRaise, _Return, _Break, _Continue, PyConst, SeqV, MapV,
                     Bound, Closure, State, is_numeric, num_real, num_int, is_intlike,
                     STR_LOWER, STR_UPPER, STR_STRIP, STR_RSTRIP, STR_OF, REPR_OF, OBJ_EQ, ROUND2)

STR_METHODS = {'lower', 'upper', 'strip', 'rstrip', 'lstrip', 'split', 'join', 'startswith', 'endswith',
               'format', 'replace', 'capitalize', 'count', 'find', 'splitlines', 'title', 'isdigit'}
LIST_METHODS = {'append', 'extend', 'pop', 'insert', 'remove', 'clear', 'index', 'copy', 'sort', 'reverse',
                'count'}
DICT_METHODS = {'get', 'items', 'keys', 'values', 'update', 'setdefault', 'pop', 'clear', 'copy'}
SET_METHODS = {'add', 'update', 'clear', 'discard', 'remove', 'copy'}


def seq_nth(s, k, depth=0):
    """s[k]; for s = a ++ [x] the equal term  k < |a| ? a[k] : (k == |a| ? x : s[k]), so that what is known about the
    elements of a applies to the extended sequence without the solver having to unfold the concatenation"""
    if depth < 4 and z3.is_app(s) and s.decl().kind() == z3.Z3_OP_SEQ_CONCAT and s.num_args() == 2:
        a, u = s.arg(0), s.arg(1)
        if z3.is_app(u) and u.decl().kind() == z3.Z3_OP_SEQ_UNIT:
            x = u.arg(0)
            return z3.If(z3.And(k >= 0, k < z3.Length(a)), seq_nth(a, k, depth + 1), z3.If(k == z3.Length(a), x, s[k]))
    return s[k]


class IterV:
    """Python-side description of an iterable: length term + element function."""

    def __init__(self, length, at, desc='', seq=None):
        self.length, self.at, self.desc, self.seq = length, at, desc, seq


class LocAttr:
    def __init__(self, ref, name):
        self.ref, self.name = ref, name


class LocItems:
    def __init__(self, ref):
        self.ref = ref


class LocDict:
    def __init__(self, ref):
        self.ref = ref


class LocAllAttrs:
    def __init__(self, ref):
        self.ref = ref


class LocClassAttr:
    def __init__(self, cid, name):
        self.cid, self.name = cid, name


class LocGhost:
    def __init__(self, name):
        self.name = name


def simple_literal(obj):
    return obj is None or isinstance(obj, (bool, int, float, str)) or (
        isinstance(obj, tuple) and all(simple_literal(x) for x in obj))


def lit(obj):
    if obj is None:
        return V.NONE
    if obj is NotImplemented:
        return V.NOTIMPL
    if isinstance(obj, bool):
        return V.mk_bool(obj)
    if isinstance(obj, int):
        return V.mk_int(obj)
    if isinstance(obj, float):
        return V.mk_float(obj)
    if isinstance(obj, str):
        return V.mk_str(obj)
    if isinstance(obj, tuple) and all(simple_literal(x) for x in obj):
        return V.mk_tuple([lit(x) for x in obj])
    return V.mk_const(obj)


class FnCtx:
    """What the interpreter needs to know about the function being verified."""

    def __init__(self, qual, contract=None, glob=None):
        self.qual = qual
        self.contract = contract
        self.glob = glob or {}
        self.loop_no = 0
        self.pre_heap = None
        self.pre_env = None
        self.pre_alloc = None
        self.abstract_log = []     # [(label, outcome, value)]
        self.stmt_lines = {}       # id(statement node of the verified function) -> line
        self.covered = set()       # lines of statements this path executed


class Interp:
    def __init__(self, st, glob, registry, fn=None, pure=False, env=None, old=None, specials=None):
        self.st = st
        self.glob = glob
        self.reg = registry
        self.fn = fn
        self.pure = pure
        self.env = env if env is not None else st.env
        self.old = old                  # (heap, env) snapshot for old(...)
        self.specials = specials or {}  # result, seen, iterated, raised...
        self.heap_override = None       # evaluate against another heap (old(...))

    # ------------------------------------------------------------------ helpers
    @property
    def heap(self):
        return self.heap_override if self.heap_override is not None else self.st.heap

    def sub(self, **kw):
        it = Interp(self.st, kw.get('glob', self.glob), self.reg, self.fn, kw.get('pure', self.pure),
                    kw.get('env', self.env), kw.get('old', self.old), kw.get('specials', self.specials))
        it.heap_override = kw.get('heap', self.heap_override)
        it.scope = getattr(self, 'scope', '')
        return it

    def to_val(self, x):
        if isinstance(x, PyConst):
            return lit(x.obj)
        if isinstance(x, z3.ExprRef):
            if x.sort() == Val:
                return x
            if x.sort() == V.B:
                return Val.b(x)
            if x.sort() == V.I:
                return Val.i(x)
            if x.sort() == V.R:
                return Val.f(x)
            if x.sort() == V.S:
                return Val.s(x)
            if x.sort() == SeqVal:
                return Val.t(x)
        if isinstance(x, SeqV):
            return Val.t(x.seq)
        if isinstance(x, bool):
            return V.mk_bool(x)
        if isinstance(x, int):
            return V.mk_int(x)
        if isinstance(x, str):
            return V.mk_str(x)
        if isinstance(x, (Closure, Bound)):
            return V.mk_const(x)
        raise Unsupported('cannot turn %r into a value' % (x,))

    def raise_(self, pycls, msg=None):
        if self.pure:
            raise Unsupported('specification expression may raise %s' % pycls.__name__)
        r = self.st.alloc_obj(pycls)
        if msg is not None:
            self.st.set_attr(r, 'args', V.mk_tuple([self.to_val(msg)]))
        raise PyRaise(Val.o(r), origin='%s at line %s%s' % (pycls.__name__, getattr(self.st, 'cur_line', '?'),
                                                        (' (%s)' % msg) if isinstance(msg, str) else ''))

    # truthiness (pure term) -------------------------------------------------------
    def truth(self, v):
        if isinstance(v, bool):
            return z3.BoolVal(v)
        if isinstance(v, PyConst):
            return z3.BoolVal(bool(v.obj))
        if isinstance(v, SeqV):
            return z3.Length(v.seq) > 0
        if isinstance(v, (Closure, Bound, IterV)):
            return z3.BoolVal(True)
        if isinstance(v, z3.ExprRef) and v.sort() == V.B:
            return v
        v = self.to_val(v)
        tag = V.tagname(v)
        if tag == 'b':
            return z3.simplify(Val.bv(v))
        if tag == 'none':
            return z3.BoolVal(False)
        if tag == 'i':
            return z3.simplify(Val.iv(v) != 0)
        if tag == 's':
            return z3.simplify(z3.Length(Val.sv(v)) > 0)
        if tag in ('c', 'notimpl'):
            return z3.BoolVal(True)
        st = self.st
        ref = Val.ref(v)
        cls = self.st.sel(self.heap.get('cls'), ref)
        objt = z3.If(z3.Or(cls == V.LIST_CID, cls == V.SET_CID), z3.Length(self.st.sel(self.heap.get('list'), ref)) > 0,
                     z3.If(cls == V.DICT_CID, z3.Length(self.st.sel(self.heap.get('dkeys'), ref)) > 0,
                           self.instance_truth(v, cls)))
        return z3.If(Val.is_b(v), Val.bv(v),
                     z3.If(Val.is_none(v), z3.BoolVal(False),
                           z3.If(Val.is_i(v), Val.iv(v) != 0,
                                 z3.If(Val.is_f(v), Val.fv(v) != 0,
                                       z3.If(Val.is_s(v), z3.Length(Val.sv(v)) > 0,
                                             z3.If(Val.is_t(v), z3.Length(Val.tv(v)) > 0,
                                                   z3.If(Val.is_o(v), objt, z3.BoolVal(True))))))))

    _truth_depth = 0

    def instance_truth(self, v, cls):
        if Interp._truth_depth > 0:
            # truthiness of an object reached through another object's __bool__: uninterpreted
            return V.uf('py_truth_nested', Val, V.B)(v)
        out = z3.BoolVal(True)
        Interp._truth_depth += 1
        try:
            for pycls, fn in self.reg.bool_hooks:
                out = z3.If(V.subclass(cls, z3.IntVal(V.cid_of(pycls))), fn(self, v), out)
        finally:
            Interp._truth_depth -= 1
        return out

    def test(self, v):
        """decide truthiness on this path"""
        t = self.truth(v)
        if self.pure:
            raise Unsupported('branching inside a specification expression')
        return self.st.branch(t)

    # equality ----------------------------------------------------------------------
    def eq(self, a, b):
        a, b = self.to_val(a), self.to_val(b)
        ta, tb = V.tagname(a), V.tagname(b)
        simple = ('none', 's', 'c', 'absent', 'notimpl')
        if ta in simple or tb in simple:
            return a == b
        both_num = z3.And(is_numeric(a), is_numeric(b))
        any_obj = z3.And(Val.is_o(a), Val.is_o(b))
        return z3.If(both_num, num_real(a) == num_real(b),
                     z3.If(any_obj, z3.Or(a == b, self.obj_eq(a, b)), a == b))

    def obj_eq(self, a, b):
        self.st.assumptions.add('A-eq: == between two distinct heap objects is an uninterpreted relation '
                                '(identity implies equality)')
        return OBJ_EQ(a, b)

    # ------------------------------------------------------------------ expressions
    def ev(self, node):
        m = getattr(self, 'e_' + type(node).__name__, None)
        if m is None:
            raise Unsupported('expression %s at line %s' % (type(node).__name__, getattr(node, 'lineno', '?')))
        return m(node)

    def e_Constant(self, node):
        v = node.value
        if v is Ellipsis or isinstance(v, (bytes, complex)):
            raise Unsupported('constant %r' % (v,))
        return lit(v)

    def e_Name(self, node):
        n = node.id
        if n in self.specials:
            return self.specials[n]
        if n == 'ABSENT' and self.pure:
            return V.ABSENT
        if n == 'NotImplemented':
            return V.NOTIMPL
        if n in self.env:
            return self.env[n]
        if n in self.reg.spec_names and self.pure:
            return PyConst(self.reg.spec_names[n])
        if n in self.glob:
            return PyConst(self.glob[n])
        if n in self.reg.spec_names:
            return PyConst(self.reg.spec_names[n])
        if hasattr(_builtins, n):
            return PyConst(getattr(_builtins, n))
        if self.pure:
            raise Unsupported('unknown name %s in specification' % n)
        self.raise_(NameError, n)

    def e_Tuple(self, node):
        items = []
        for e in node.elts:
            if isinstance(e, ast.Starred):
                raise Unsupported('starred tuple element')
            items.append(self.to_val(self.ev(e)))
        return V.mk_tuple(items)

    def e_List(self, node):
        items = [self.to_val(self.ev(e)) for e in node.elts]
        if self.pure:
            return SeqV(V.seq_of(items))
        return self.st.new_list(V.seq_of(items))

    def e_Set(self, node):
        items = [self.to_val(self.ev(e)) for e in node.elts]
        return self.st.new_set(V.seq_of(items))

    def e_Dict(self, node):
        if self.pure:
            raise Unsupported('dict display in specification')
        d = self.st.new_dict()
        ref = Val.ref(d)
        for k, v in zip(node.keys, node.values):
            if k is None:
                raise Unsupported('dict unpacking in display')
            self.dict_set(ref, self.to_val(self.ev(k)), self.to_val(self.ev(v)))
        return d

    def e_JoinedStr(self, node):
        parts = []
        for p in node.values:
            if isinstance(p, ast.Constant):
                parts.append(z3.StringVal(p.value))
            else:
                if p.format_spec is not None:
                    raise Unsupported('f-string format spec')
                v = self.to_val(self.ev(p.value))
                parts.append(self.repr_term(v) if p.conversion == ord('r') else self.str_term(v))
        if not parts:
            return V.mk_str('')
        return V.mk_str(parts[0] if len(parts) == 1 else z3.Concat(*parts))

    def str_term(self, v):
        """str(v) as a String term (total; user __str__ is not modelled here)."""
        return z3.If(Val.is_s(v), Val.sv(v),
                     z3.If(z3.And(Val.is_i(v), Val.iv(v) >= 0), z3.IntToStr(Val.iv(v)),
                           z3.If(Val.is_none(v), z3.StringVal('None'),
                                 z3.If(Val.is_b(v), z3.If(Val.bv(v), z3.StringVal('True'), z3.StringVal('False')),
                                       STR_OF(v)))))

    def repr_term(self, v):
        return REPR_OF(v)

    def e_BoolOp(self, node):
        is_and = isinstance(node.op, ast.And)
        if self.pure:
            vals = [self.ev(x) for x in node.values]
            if all(V.is_val(x) and V.tagname(x) == 'b' for x in vals):
                bs = [z3.simplify(Val.bv(x)) for x in vals]
                return Val.b(z3.And(*bs) if is_and else z3.Or(*bs))
            out = self.to_val(vals[-1])
            for x in reversed(vals[:-1]):
                x = self.to_val(x)
                t = self.truth(x)
                out = z3.If(t, out, x) if is_and else z3.If(t, x, out)
            return out
        v = None
        for x in node.values:
            v = self.ev(x)
            if x is node.values[-1]:
                break
            t = self.test(v)
            if is_and and not t:
                return v
            if (not is_and) and t:
                return v
        return v

    def e_UnaryOp(self, node):
        v = self.ev(node.operand)
        if isinstance(node.op, ast.Not):
            return Val.b(z3.Not(self.truth(v)))
        v = self.to_val(v)
        if isinstance(node.op, ast.USub):
            if not self.pure and not self.st.branch(is_numeric(v)):
                return self.unknown_unop('-', v)
            return z3.If(Val.is_f(v), Val.f(-Val.fv(v)), Val.i(-num_int(v)))
        if isinstance(node.op, ast.UAdd):
            if not self.pure and not self.st.branch(is_numeric(v)):
                return self.unknown_unop('+', v)
            return z3.If(Val.is_f(v), v, Val.i(num_int(v)))
        raise Unsupported('unary operator %s' % type(node.op).__name__)

    def unknown_unop(self, op, v):
        raise Unsupported('unary %s on a non-number' % op)

    def e_IfExp(self, node):
        if self.pure:
            c = self.truth(self.ev(node.test))
            return z3.If(c, self.to_val(self.ev(node.body)), self.to_val(self.ev(node.orelse)))
        if self.test(self.ev(node.test)):
            return self.ev(node.body)
        return self.ev(node.orelse)

    def e_Compare(self, node):
        left = self.ev(node.left)
        result = None
        for op, rnode in zip(node.ops, node.comparators):
            right = self.ev(rnode)
            c = self.compare(op, left, right)
            if len(node.ops) == 1:
                return Val.b(c)
            if self.pure:
                result = c if result is None else z3.And(result, c)
            else:
                if not self.st.branch(c):
                    return V.mk_bool(False)
                result = z3.BoolVal(True)
            left = right
        return Val.b(result)

    def compare(self, op, a, b):
        """-> z3 Bool"""
        if self.theory_on() and not self.pure and not isinstance(op, (ast.Is, ast.IsNot)) \
                and not isinstance(a, PyConst) and not isinstance(b, PyConst) \
                and not (V.is_val(b) and V.tagname(b) in ('notimpl', 'none')):
            if isinstance(op, (ast.In, ast.NotIn)):
                r = self.truth(self.theory('contains', [b, a]))
                return r if isinstance(op, ast.In) else z3.Not(r)
            return self.truth(self.theory('cmp_' + type(op).__name__, [a, b]))
        if isinstance(op, (ast.Is, ast.IsNot)):
            r = self.identical(a, b)
            return r if isinstance(op, ast.Is) else z3.Not(r)
        if isinstance(op, (ast.In, ast.NotIn)):
            r = self.contains(b, a)
            return r if isinstance(op, ast.In) else z3.Not(r)
        if isinstance(a, SeqV) and isinstance(b, SeqV) and isinstance(op, (ast.Eq, ast.NotEq)):
            r = a.seq == b.seq
            return r if isinstance(op, ast.Eq) else z3.Not(r)
        a, b = self.to_val(a), self.to_val(b)
        if isinstance(op, ast.Eq):
            return self.eq(a, b)
        if isinstance(op, ast.NotEq):
            return z3.Not(self.eq(a, b))
        return self.order(type(op).__name__, a, b)

    def order(self, opname, a, b):
        nums = z3.And(is_numeric(a), is_numeric(b))
        strs = z3.And(Val.is_s(a), Val.is_s(b))
        if not self.pure:
            if not self.st.branch(z3.Or(nums, strs)):
                return self.unknown_order(opname, a, b)
        ra, rb = num_real(a), num_real(b)
        sa, sb = Val.sv(a), Val.sv(b)
        if opname == 'Lt':
            return z3.If(nums, ra < rb, sa < sb)
        if opname == 'LtE':
            return z3.If(nums, ra <= rb, sa <= sb)
        if opname == 'Gt':
            return z3.If(nums, ra > rb, sb < sa)
        if opname == 'GtE':
            return z3.If(nums, ra >= rb, sb <= sa)
        raise Unsupported(opname)

    def unknown_order(self, opname, a, b):
        raise Unsupported('ordering comparison on non-number, non-string operands')

    def identical(self, a, b):
        if isinstance(a, PyConst) and isinstance(b, PyConst):
            return z3.BoolVal(a.obj is b.obj)
        a, b = self.to_val(a), self.to_val(b)
        # `is` on small ints / strs is not specified by Python; only None, bools, objects, consts
        return a == b

    def contains(self, cont, x):
        """x in cont  -> z3 Bool"""
        if isinstance(cont, PyConst):
            obj = cont.obj
            if isinstance(obj, (list, tuple, set, frozenset, dict)):
                xv = self.to_val(x)
                alts = [self.eq(xv, lit(e)) for e in obj]
                return z3.Or(*alts) if alts else z3.BoolVal(False)
            raise Unsupported('membership in constant %r' % type(obj).__name__)
        if isinstance(cont, SeqV):
            return z3.Contains(cont.seq, z3.Unit(self.to_val(x)))
        if isinstance(cont, MapV):
            return z3.Select(cont.arr, self.to_val(x)) != V.ABSENT
        if isinstance(cont, IterV):
            raise Unsupported('membership in an iterator')
        cont = self.to_val(cont)
        xv = self.to_val(x)
        st = self.st
        ref = Val.ref(cont)
        cls = self.st.sel(self.heap.get('cls'), ref)
        in_seq = z3.Contains(self.st.sel(self.heap.get('list'), ref), z3.Unit(xv))
        in_dict = z3.Select(self.st.sel(self.heap.get('dmap'), ref), xv) != V.ABSENT
        in_tuple = z3.Contains(Val.tv(cont), z3.Unit(xv))
        in_str = z3.Contains(Val.sv(cont), Val.sv(xv))
        if not self.pure:
            self.st.assumptions.add('A-in: membership in tuples/lists/sets/dict keys is structural equality of Val')
            tag = V.tagname(cont)
            if tag == 't' or (tag is None and st.branch(Val.is_t(cont))):
                return in_tuple
            if tag == 'o' or (tag is None and st.branch(Val.is_o(cont))):
                if st.branch(cls == V.DICT_CID):
                    return in_dict
                if st.branch(z3.Or(cls == V.LIST_CID, cls == V.SET_CID)):
                    return in_seq
                c = self.reg.method_contract(self, cont, '__contains__')
                if c is not None:
                    return self.truth(self.call_contract(c, [cont, xv], {}))
                view = self.sequence_view_of(ref)
                if view is not None:
                    return z3.Contains(view, z3.Unit(xv))
                return self.unknown_contains(cont, xv)
            if tag == 's' or (tag is None and st.branch(Val.is_s(cont))):
                if not st.branch(Val.is_s(xv)):
                    self.raise_(TypeError, "'in <string>' requires string as left operand")
                return in_str
            return self.unknown_contains(cont, xv)
        return z3.If(Val.is_t(cont), in_tuple,
                     z3.If(Val.is_s(cont), in_str,
                           z3.If(cls == V.DICT_CID, in_dict, in_seq)))

    def sequence_view_of(self, ref):
        """SEQUENCE_VIEW = {Class: 'attr'} in a sidecar: the class implements only the legacy sequence protocol
        (__getitem__/__len__ delegating to the list in `attr`), so iterating or testing membership on an instance is
        iterating / testing that list (elements compared by Val equality: identity for objects).  Stated assumption
        A-seqview; the delegation itself is what the class's three one-line methods do."""
        st = self.st
        cls = st.cls_of(ref)
        for pycls, attr in getattr(self.reg, 'sequence_view', []):
            if st.branch(V.subclass(cls, z3.IntVal(V.cid_of(pycls)))):
                inner = st.get_attr(ref, attr)
                st.assumptions.add('A-seqview: %s iterates / tests membership through its list attribute %s '
                                   '(legacy __getitem__ protocol)' % (pycls.__name__, attr))
                if not st.branch(z3.And(Val.is_o(inner), st.cls_of(Val.ref(inner)) == V.LIST_CID)):
                    raise Unsupported('sequence view attribute is not a list')
                return st.items(Val.ref(inner))
        return None

    def unknown_contains(self, cont, x):
        self.raise_(TypeError, 'argument is not iterable')

    def e_BinOp(self, node):
        a = self.ev(node.left)
        b = self.ev(node.right)
        return self.binop(type(node.op).__name__, a, b)

    def binop(self, op, a, b):
        if self.theory_on() and not self.pure and not isinstance(a, SeqV) and not isinstance(b, SeqV):
            return self.theory('binop_' + op, [a, b])
        if isinstance(a, SeqV) or isinstance(b, SeqV):
            if op == 'Add':
                sa = a.seq if isinstance(a, SeqV) else Val.tv(self.to_val(a))
                sb = b.seq if isinstance(b, SeqV) else Val.tv(self.to_val(b))
                return SeqV(z3.Concat(sa, sb))
            raise Unsupported('operator %s on specification sequences' % op)
        a, b = self.to_val(a), self.to_val(b)
        ints = z3.And(is_intlike(a), is_intlike(b))
        nums = z3.And(is_numeric(a), is_numeric(b))
        strs = z3.And(Val.is_s(a), Val.is_s(b))
        tups = z3.And(Val.is_t(a), Val.is_t(b))
        ia, ib, ra, rb = num_int(a), num_int(b), num_real(a), num_real(b)
        if op == 'Add':
            cls_a = self.st.cls_of(Val.ref(a))
            cls_b = self.st.cls_of(Val.ref(b))
            lists = z3.And(Val.is_o(a), Val.is_o(b), cls_a == V.LIST_CID, cls_b == V.LIST_CID)
            if not self.pure:
                if self.st.branch(lists):
                    return self.st.new_list(z3.Concat(self.st.items(Val.ref(a)), self.st.items(Val.ref(b))))
                if not self.st.branch(z3.Or(nums, strs, tups)):
                    return self.unknown_binop(op, a, b)
            return z3.If(ints, Val.i(ia + ib), z3.If(nums, Val.f(ra + rb),
                         z3.If(strs, Val.s(z3.Concat(Val.sv(a), Val.sv(b))),
                               Val.t(z3.Concat(Val.tv(a), Val.tv(b))))))
        if op in ('Sub', 'Mult'):
            if not self.pure and not self.st.branch(nums):
                return self.unknown_binop(op, a, b)
            if op == 'Sub':
                return z3.If(ints, Val.i(ia - ib), Val.f(ra - rb))
            return z3.If(ints, Val.i(ia * ib), Val.f(ra * rb))
        if op == 'Div':
            if not self.pure:
                if not self.st.branch(nums):
                    return self.unknown_binop(op, a, b)
                if self.st.branch(rb == 0):
                    self.raise_(ZeroDivisionError, 'division by zero')
            return Val.f(ra / rb)
        if op in ('Mod', 'FloorDiv'):
            if not self.pure:
                if op == 'Mod' and self.st.branch(Val.is_s(a)):
                    raise Unsupported('% string formatting')
                if not self.st.branch(ints):
                    return self.unknown_binop(op, a, b)
                if self.st.branch(ib == 0):
                    self.raise_(ZeroDivisionError, 'integer division or modulo by zero')
            # Python floor semantics: z3 div/mod are euclidean; agree when divisor > 0
            if not self.pure:
                if not self.st.branch(ib > 0):
                    raise Unsupported('integer //,% with a non-positive divisor')
            return Val.i(ia % ib) if op == 'Mod' else Val.i(ia / ib)
        raise Unsupported('binary operator %s' % op)

    def unknown_binop(self, op, a, b):
        """operands that are not both numbers / strings / tuples / lists: for two non-objects Python raises
        TypeError; anything involving an instance would need its __op__ contract"""
        if self.pure:
            raise Unsupported('binary %s on operands outside int/float/str/tuple/list' % op)
        st = self.st
        prim_a = z3.Not(Val.is_o(a))
        prim_b = z3.Not(Val.is_o(b))
        if st.branch(z3.And(prim_a, prim_b)):
            self.raise_(TypeError, 'unsupported operand type(s) for %s' % op)
        raise Unsupported('binary %s on operands outside int/float/str/tuple/list' % op)

    # attributes ---------------------------------------------------------------------
    def e_Attribute(self, node):
        base = self.ev(node.value)
        return self.getattr_(base, node.attr)

    def getattr_(self, base, name):
        if isinstance(base, PyConst):
            obj = base.obj
            if isinstance(obj, type) and self.reg.class_attr_is_heap(obj, name):
                return self.st.class_attr(z3.IntVal(V.cid_of(obj)), name, self.heap_override)
            try:
                return PyConst(getattr(obj, name))
            except AttributeError:
                if self.pure:
                    raise Unsupported('constant %r has no attribute %s' % (obj, name))
                self.raise_(AttributeError, name)
        if isinstance(base, (SeqV, MapV, IterV, Closure)):
            return Bound(base, name)
        if isinstance(base, Bound):
            raise Unsupported('attribute of a bound method')
        base = self.to_val(base)
        if self.pure:
            if name == '__class__':
                return Val.c(self.st.sel(self.heap.get('cls'), Val.ref(base)))
            return self.attr_term(Val.ref(base), name)
        st = self.st
        if not st.branch(Val.is_o(base)):
            # attribute of a non-object: a class constant used as a namespace, or an error
            if st.branch(Val.is_c(base)):
                if name == '__name__':
                    return Val.s(V.uf('class_name', V.I, V.S)(Val.cid(base)))
                raise Unsupported('attribute %s of a symbolic class/function value' % name)
            self.raise_(AttributeError, name)
        if name == '__class__':
            return Val.c(st.cls_of(Val.ref(base)))
        v = self.attr_term(Val.ref(base), name)
        if st.branch(v == V.ABSENT):
            self.raise_(AttributeError, name)
        st.note_ref(v)
        return v

    def attr_term(self, ref, name, heap=None):
        """`obj.name` is one *resolved* cell per (object, name): the instance attribute if set,
        else what the class chain provides (A-attr).  Class constants declared in the sidecar are
        read from the live class for every subclass (A-classconst)."""
        h = heap or self.heap
        v = self.st.sel(h.get(('attr', name)), ref)
        for pycls, sf in self.reg.property_get.get(name, []):
            # a read-only view of a property: its getter as a specification function
            cls = self.st.sel(h.get('cls'), ref)
            sub = self.sub(pure=True)
            sub.heap_override = heap if heap is not None else self.heap_override
            pv = sub.to_val(sub.call_spec(sf, [Val.o(ref)], {}))
            v = z3.If(V.subclass(cls, z3.IntVal(V.cid_of(pycls))), pv, v)
        for pycls, value in self.reg.class_consts.get(name, []):
            self.st.assumptions.add('A-classconst: subclasses of %s do not override %s' % (pycls.__name__, name))
            cls = self.st.sel(h.get('cls'), ref)
            v = z3.If(V.subclass(cls, z3.IntVal(V.cid_of(pycls))), lit(value), v)
        return v

    def e_Subscript(self, node):
        base = self.ev(node.value)
        if isinstance(node.slice, ast.Slice):
            return self.slice_(base, node.slice)
        idx = self.ev(node.slice)
        return self.getitem(base, idx)

    def slice_(self, base, sl):
        if sl.step is not None:
            raise Unsupported('slice step')
        lo = self.to_val(self.ev(sl.lower)) if sl.lower is not None else None
        hi = self.to_val(self.ev(sl.upper)) if sl.upper is not None else None
        if isinstance(base, SeqV):
            seq, wrap = base.seq, lambda s: SeqV(s)
        else:
            base = self.to_val(base)
            tag = V.tagname(base)
            if tag == 's' or (tag is None and not self.pure and self.st.branch(Val.is_s(base))):
                seq, wrap = Val.sv(base), lambda s: Val.s(s)
            elif tag == 't' or (tag is None and not self.pure and self.st.branch(Val.is_t(base))):
                seq, wrap = Val.tv(base), lambda s: Val.t(s)
            elif not self.pure and self.st.branch(z3.And(Val.is_o(base), self.st.cls_of(Val.ref(base)) == V.LIST_CID)):
                seq, wrap = self.st.items(Val.ref(base)), lambda s: self.st.new_list(s)
            elif self.pure:
                # tag not known statically: a string slice or a tuple/list slice, chosen by the tag
                sseq = Val.sv(base)
                tseq = z3.If(Val.is_t(base), Val.tv(base), self.st.sel(self.heap.get('list'), Val.ref(base)))
                outs = []
                for sq in (sseq, tseq):
                    n = z3.Length(sq)

                    def nrm(v, default, n=n):
                        if v is None:
                            return default
                        k = num_int(v)
                        k = z3.If(k < 0, k + n, k)
                        return z3.If(k < 0, z3.IntVal(0), z3.If(k > n, n, k))
                    a = nrm(lo, z3.IntVal(0))
                    b = nrm(hi, n)
                    outs.append(z3.Extract(sq, a, z3.If(b - a < 0, z3.IntVal(0), b - a)))
                return z3.If(Val.is_s(base), Val.s(outs[0]), Val.t(outs[1]))
            else:
                raise Unsupported('slice of a non-sequence')
        n = z3.Length(seq)

        def norm(v, default):
            if v is None:
                return default
            if not self.pure and not self.st.branch(is_intlike(v)):
                if self.st.branch(Val.is_none(v)):
                    return default
                self.raise_(TypeError, 'slice indices must be integers')
            k = num_int(v)
            k = z3.If(k < 0, k + n, k)
            return z3.If(k < 0, z3.IntVal(0), z3.If(k > n, n, k))
        a = norm(lo, z3.IntVal(0))
        b = norm(hi, n)
        return wrap(z3.Extract(seq, a, z3.If(b - a < 0, z3.IntVal(0), b - a)))

    def getitem(self, base, idx):
        if isinstance(base, PyConst):
            obj = base.obj
            if isinstance(idx, PyConst):
                return PyConst(obj[idx.obj])
            iv = self.to_val(idx)
            if isinstance(obj, dict):
                out = None
                for k, v in obj.items():
                    c = self.eq(iv, lit(k))
                    if not self.pure and self.st.branch(c):
                        return lit(v) if simple_literal(v) else PyConst(v)
                if self.pure:
                    if all(simple_literal(v) for v in obj.values()):
                        # a table of literals: the chain of comparisons (a missing key reads as ABSENT, which no
                        # specification value equals)
                        out = V.ABSENT
                        for k, v in reversed(list(obj.items())):
                            out = z3.If(self.truth(self.eq(iv, lit(k))), self.to_val(lit(v)), out)
                        return out
                    raise Unsupported('subscript of constant dict in specification')
                self.raise_(KeyError, iv)
            if isinstance(obj, (list, tuple, str)):
                if self.pure:
                    out = V.NONE
                    for k, e in reversed(list(enumerate(obj))):
                        out = z3.If(num_int(iv) == k, lit(e), out)
                    return out
                for k, e in enumerate(obj):
                    if self.st.branch(z3.Or(num_int(iv) == k, num_int(iv) == k - len(obj))):
                        return lit(e) if simple_literal(e) else PyConst(e)
                self.raise_(IndexError, 'index out of range')
            raise Unsupported('subscript of constant %s' % type(obj).__name__)
        if isinstance(base, SeqV):
            # specification sequences are indexed mathematically (negative literals count from the end)
            k = z3.simplify(num_int(self.to_val(idx)))
            if z3.is_int_value(k) and k.as_long() < 0:
                return base.seq[z3.Length(base.seq) + k]
            return base.seq[k]
        if isinstance(base, MapV):
            return z3.Select(base.arr, self.to_val(idx))
        if isinstance(base, IterV):
            return base.at(num_int(self.to_val(idx)))
        base = self.to_val(base)
        idx = self.to_val(idx)
        st = self.st
        if self.theory_on() and not self.pure:
            for pycls, c in sorted(self.reg.by_method.get('__getitem__', []), key=lambda pc: -len(pc[0].__mro__)):
                if st.branch(z3.And(Val.is_o(base), V.subclass(st.cls_of(Val.ref(base)), z3.IntVal(V.cid_of(pycls))))):
                    return self.call_contract(c, [base, idx], {})
            return self.theory('getitem', [base, idx])
        if V.tagname(base) == 't' and V.tagname(idx) == 'i':
            k = z3.simplify(Val.iv(idx))
            tv = z3.simplify(Val.tv(base))
            if z3.is_int_value(k) and k.as_long() >= 0:
                return z3.simplify(tv[k])
        if self.pure:
            ref = Val.ref(base)
            cls = self.st.sel(self.heap.get('cls'), ref)
            k = num_int(idx)
            lst = self.st.sel(self.heap.get('list'), ref)
            tv = Val.tv(base)
            return z3.If(Val.is_t(base), tv[z3.If(k < 0, k + z3.Length(tv), k)],
                         z3.If(Val.is_s(base), Val.s(z3.SubString(Val.sv(base), z3.If(k < 0, k + z3.Length(Val.sv(base)), k), 1)),
                               z3.If(cls == V.DICT_CID, z3.Select(self.st.sel(self.heap.get('dmap'), ref), idx),
                                     lst[z3.If(k < 0, k + z3.Length(lst), k)])))
        if st.branch(Val.is_o(base)):
            ref = Val.ref(base)
            cls = st.cls_of(ref)
            if st.branch(cls == V.DICT_CID):
                v = z3.Select(st.dmap(ref), idx)
                if st.branch(v == V.ABSENT):
                    self.raise_(KeyError, idx)
                st.note_ref(v)
                return v
            if st.branch(cls == V.LIST_CID):
                return self.seq_index(st.items(ref), idx, note=True)
            return self.user_getitem(base, idx)
        if st.branch(Val.is_t(base)):
            return self.seq_index(Val.tv(base), idx, note=True)
        if st.branch(Val.is_s(base)):
            s = Val.sv(base)
            if not st.branch(is_intlike(idx)):
                self.raise_(TypeError, 'string indices must be integers')
            k = num_int(idx)
            n = z3.Length(s)
            if not st.branch(z3.And(k < n, k >= -n)):
                self.raise_(IndexError, 'string index out of range')
            return Val.s(z3.SubString(s, z3.If(k < 0, k + n, k), 1))
        self.raise_(TypeError, 'object is not subscriptable')

    def user_getitem(self, base, idx):
        if self.theory_on() and not self.pure and not self.reg.by_method.get('__getitem__'):
            return self.theory('getitem', [base, idx])
        return self._user_getitem(base, idx)

    def _user_getitem(self, base, idx):
        c = self.reg.method_contract(self, base, '__getitem__')
        if c is not None:
            return self.call_contract(c, [base, idx], {})
        cls = self.st.cls_of(Val.ref(base))
        for pycls in self.reg.instance_classes:
            if self.st.branch(V.subclass(cls, z3.IntVal(V.cid_of(pycls)))):
                if hasattr(pycls, '__getitem__'):
                    raise Unsupported('%s.__getitem__ has no contract' % pycls.__name__)
                self.st.assumptions.add('A-dispatch: subclasses of %s do not define __getitem__' % pycls.__name__)
                self.raise_(TypeError, 'object is not subscriptable')
        raise Unsupported('subscript of an instance of unknown class')

    def seq_index(self, seq, idx, note=False):
        st = self.st
        if not st.branch(is_intlike(idx)):
            self.raise_(TypeError, 'indices must be integers')
        k = num_int(idx)
        n = z3.Length(seq)
        if not st.branch(z3.And(k < n, k >= -n)):
            self.raise_(IndexError, 'index out of range')
        v = seq[z3.If(k < 0, k + n, k)]
        st.assume(v != V.ABSENT)          # containers never hold the 'missing' marker
        if note:
            st.note_ref(v)
        return v

    # dict primitives ----------------------------------------------------------------------
    def dict_set(self, ref, k, v):
        st = self.st
        amap = st.dmap(ref)
        keys = st.dkeys(ref)
        present = z3.Select(amap, k) != V.ABSENT
        st.set_dict(ref, z3.If(present, keys, z3.Concat(keys, z3.Unit(k))), z3.Store(amap, k, v))

    # lambda / comprehension ------------------------------------------------------------------
    def e_Lambda(self, node):
        return Closure(node, dict(self.env), 'lambda')

    def e_ListComp(self, node):
        return self.comprehension(node, 'list')

    def e_GeneratorExp(self, node):
        return self.comprehension(node, 'gen')

    def comprehension(self, node, kind):
        if len(node.generators) != 1 or node.generators[0].ifs and len(node.generators[0].ifs) > 1:
            raise Unsupported('comprehension with several generators / conditions')
        gen = node.generators[0]
        it = self.iterable(self.ev(gen.iter))
        if isinstance(it, list):        # constant, exact unrolling
            out = []
            for e in it:
                env = dict(self.env)
                sub = self.sub(env=env)
                sub.bind_target(gen.target, e)
                if gen.ifs and not (sub.truth(sub.ev(gen.ifs[0])) if False else sub.test(sub.ev(gen.ifs[0]))):
                    continue
                out.append(self.to_val(sub.ev(node.elt)))
            seq = V.seq_of(out)
            return SeqV(seq) if (self.pure or kind == 'gen') else self.st.new_list(seq)
        if gen.ifs:
            raise Unsupported('filtered comprehension over a symbolic sequence')
        # map over a symbolic sequence
        if it.desc in ('list', 'tuple', 'seq') and isinstance(gen.target, ast.Name):
            mapped = self.named_map(gen.target.id, node.elt, it)
            if mapped is not None:
                return SeqV(mapped) if (self.pure or kind == 'gen') else self.st.new_list(mapped)
        # general case: result sequence R with |R| = n and R[k] = f(S[k])
        n = it.length
        R = self.st.fresh('comp', SeqVal)
        k = z3.Int(self.st.fresh_name('ck'))
        env = dict(self.env)
        sub = self.sub(env=env, pure=True)
        sub.bind_target(gen.target, it.at(k))
        body = self.to_val(sub.ev(node.elt))
        self.st.pc.append(z3.Length(R) == n)
        self.st.pc.append(z3.ForAll([k], z3.Implies(z3.And(0 <= k, k < n), R[k] == body)))
        self.st.assumptions.add('A-comp: comprehension element expressions are evaluated as total (non-raising) terms')
        return SeqV(R) if (self.pure or kind == 'gen') else self.st.new_list(R)

    SIMPLE_ELT_CALLS = {'str', 'int', 'float', 'len', 'repr', 'bool'}

    def named_map(self, var, elt, it):
        """[f(x) for x in S] with a heap-independent f becomes cmap_f(S): one uninterpreted
        function per element expression (alpha-normalised), with its pointwise definition as a
        global axiom - so the code's comprehension and the specification's comp_map() are the
        same term."""
        free = []
        for n in ast.walk(elt):
            if isinstance(n, (ast.Attribute,)) and not (isinstance(getattr(n, 'ctx', None), ast.Load) and False):
                # attribute access: only as the callee of a string method on the element
                pass
            if isinstance(n, (ast.Subscript, ast.Lambda, ast.ListComp, ast.GeneratorExp, ast.Starred)):
                return None
        for n in ast.walk(elt):
            if isinstance(n, ast.Call):
                f = n.func
                if isinstance(f, ast.Name) and f.id in self.SIMPLE_ELT_CALLS and f.id not in self.env:
                    continue
                if isinstance(f, ast.Attribute) and f.attr in ('rstrip', 'strip', 'lower', 'upper') and not n.args:
                    continue
                return None
            if isinstance(n, ast.Attribute):
                # allowed only as callee checked above
                parent_ok = any(isinstance(c, ast.Call) and c.func is n for c in ast.walk(elt))
                if not parent_ok:
                    return None
            if isinstance(n, ast.Name) and n.id != var and n.id not in self.SIMPLE_ELT_CALLS:
                return None
        import copy, hashlib

        class Ren(ast.NodeTransformer):
            def visit_Name(self, node):
                return ast.copy_location(ast.Name(id='_x' if node.id == var else node.id, ctx=node.ctx), node)
        norm = Ren().visit(copy.deepcopy(elt))
        key = hashlib.sha1(ast.dump(norm).encode()).hexdigest()[:10]
        F = V.uf('cmap_' + key, SeqVal, SeqVal)
        gk = 'cmap_' + key
        if gk not in self.st.ghost:
            self.st.ghost[gk] = True
            sq = z3.Const('cm_s', SeqVal)
            k = z3.Int('cm_k')
            sub = self.sub(env={var: sq[k]}, pure=True)
            body = sub.to_val(sub.ev(elt))
            self.st.axioms.append(z3.ForAll([sq], z3.Length(F(sq)) == z3.Length(sq), patterns=[F(sq)]))
            self.st.axioms.append(z3.ForAll([sq, k], z3.Implies(z3.And(k >= 0, k < z3.Length(sq)), F(sq)[k] == body),
                                            patterns=[F(sq)[k]]))
            self.st.assumptions.add('A-comp: comprehension element expressions are evaluated as total (non-raising) terms')
        # the source sequence
        n = z3.Int(self.st.fresh_name('cm_n'))
        src = getattr(it, 'seq', None)
        if src is None:
            return None
        return F(src)

    # iteration --------------------------------------------------------------------------------
    def iterable(self, v):
        """-> python list of values (constant) or IterV"""
        if isinstance(v, IterV):
            return v
        if isinstance(v, PyConst):
            obj = v.obj
            if isinstance(obj, (list, tuple)):
                return [lit(e) if simple_literal(e) else PyConst(e) for e in obj]
            if isinstance(obj, dict):
                return [lit(e) if simple_literal(e) else PyConst(e) for e in obj]
            if isinstance(obj, range):
                return [lit(e) for e in obj]
            raise Unsupported('iteration over constant %s' % type(obj).__name__)
        if isinstance(v, SeqV):
            return IterV(z3.Length(v.seq), lambda k, s=v.seq: s[k], 'seq', seq=v.seq)
        v = self.to_val(v)
        st = self.st
        tag = V.tagname(v)
        if tag == 't' or (tag is None and not self.pure and st.branch(Val.is_t(v))):
            s = Val.tv(v)
            return IterV(z3.Length(s), lambda k: s[k], 'tuple', seq=s)
        if self.pure:
            s = self.st.sel(self.heap.get('list'), Val.ref(v))
            return IterV(z3.Length(s), lambda k: s[k], 'list', seq=s)
        if st.branch(Val.is_o(v)):
            ref = Val.ref(v)
            cls = st.cls_of(ref)
            if st.branch(z3.Or(cls == V.LIST_CID, cls == V.SET_CID)):
                s = st.items(ref)
                return IterV(z3.Length(s), lambda k: s[k], 'list', seq=s)
            if st.branch(cls == V.DICT_CID):
                s = st.dkeys(ref)
                it_ = IterV(z3.Length(s), lambda k: s[k], 'dict')
                it_.dict_ref = ref
                return it_
            view = self.sequence_view_of(ref)
            if view is not None:
                return IterV(z3.Length(view), lambda k, s_=view: s_[k], 'list', seq=view)
            raise Unsupported('iteration over an instance')
        if st.branch(Val.is_s(v)):
            s = Val.sv(v)
            return IterV(z3.Length(s), lambda k: Val.s(z3.SubString(s, k, 1)), 'str')
        self.raise_(TypeError, 'object is not iterable')

    # calls -----------------------------------------------------------------------------------
    def e_Call(self, node):
        # specification vocabulary first
        if isinstance(node.func, ast.Name):
            h = getattr(self, 'spec_' + node.func.id, None)
            if h is not None and (self.pure or node.func.id in ('items', 'ghost')) and node.func.id not in self.env:
                return h(node)
        if not self.pure:
            ac = self.reg.abstract_for(self, node)
            if ac is not None:
                if isinstance(node.func, ast.Attribute):
                    # the receiver is still evaluated: a method of a non-object does not exist
                    recv = self.ev(node.func.value)
                    if V.is_val(recv) and not self.st.branch(Val.is_o(recv)):
                        # a value of a builtin type: the method exists iff that type defines it
                        st_ = self.st
                        for test, pytype in ((Val.is_s, str), (Val.is_i, int), (Val.is_f, float), (Val.is_b, bool),
                                             (Val.is_t, tuple)):
                            if hasattr(pytype, node.func.attr) and st_.branch(test(recv)):
                                break
                        else:
                            self.raise_(AttributeError, node.func.attr)
                args = [self.ev(a.value if isinstance(a, ast.Starred) else a) for a in node.args]
                for k in node.keywords:
                    self.ev(k.value)
                return self.call_contract(ac, args, {})
        if any(isinstance(a, ast.Starred) for a in node.args) or any(k.arg is None for k in node.keywords):
            return self.call_starred(node)
        if isinstance(node.func, ast.Attribute):
            recv = self.ev(node.func.value)
            args = [self.ev(a) for a in node.args]
            kwargs = {k.arg: self.ev(k.value) for k in node.keywords}
            return self.call_method(recv, node.func.attr, args, kwargs, node)
        f = self.ev(node.func)
        args = [self.ev(a) for a in node.args]
        kwargs = {k.arg: self.ev(k.value) for k in node.keywords}
        return self.call_value(f, args, kwargs, node)

    def call_starred(self, node):
        """f(a, b, **m): the mapping is handed to the callee's **kwargs parameter as one value"""
        if any(isinstance(a, ast.Starred) for a in node.args):
            raise Unsupported('call with *args at line %s' % getattr(node, 'lineno', '?'))
        args = [self.ev(a) for a in node.args]
        kwargs = {}
        for k in node.keywords:
            if k.arg is None:
                if '**' in kwargs:
                    raise Unsupported('several ** arguments')
                kwargs['**'] = self.ev(k.value)
            else:
                kwargs[k.arg] = self.ev(k.value)
        if isinstance(node.func, ast.Attribute):
            recv = self.ev(node.func.value)
            return self.call_method(recv, node.func.attr, args, kwargs, node)
        return self.call_value(self.ev(node.func), args, kwargs, node)

    def call_value(self, f, args, kwargs, node=None):
        if isinstance(f, Bound):
            return self.call_method(f.recv, f.name, args, kwargs, node)
        if isinstance(f, Closure):
            return self.call_closure(f, args, kwargs)
        if isinstance(f, PyConst):
            return self.call_const(f.obj, args, kwargs, node)
        f = self.to_val(f)
        return self.call_symbolic(f, args, kwargs, node)

    def call_symbolic(self, f, args, kwargs, node):
        c = self.reg.abstract_for(self, node)
        if c is not None:
            return self.call_contract(c, args, kwargs)
        raise Unsupported('call of a symbolic callable at line %s' % getattr(node, 'lineno', '?'))

    def call_closure(self, f, args, kwargs):
        node = f.node
        env = dict(f.env)
        params = node.args
        names = [a.arg for a in params.args]
        if len(args) > len(names):
            raise Unsupported('closure arity')
        for n, a in zip(names, args):
            env[n] = a
        for k, v in kwargs.items():
            env[k] = v
        ndef = len(params.defaults)
        for i, n in enumerate(names):
            if n not in env:
                di = i - (len(names) - ndef)
                if di < 0:
                    raise Unsupported('closure missing argument %s' % n)
                env[n] = self.sub(env=env).ev(params.defaults[di])
        sub = self.sub(env=env)
        if isinstance(node, ast.Lambda):
            return sub.ev(node.body)
        try:
            sub.exec_block(node.body)
        except _Return as r:
            return r.value
        return V.NONE

    def theory_on(self):
        c = self.fn.contract if self.fn is not None else None
        return bool(c is not None and c.options.get('operator_theory'))

    def theory(self, name, args):
        """operator theory: an operation on values of unknown class is the uninterpreted function
        th_<name> of its operands (total: whether the operation raises is not modelled here, the
        bounded stand-in B-ops covers that); the same term is written `op(name, ...)` in contracts."""
        vs = [self.to_val(a) for a in args]
        self.st.assumptions.add('A-ops: operators/builtins on values of unknown class are uninterpreted total functions '
                                '(failure behaviour is covered by the bounded stand-in B-ops)')
        r = V.uf('th_' + name, *([Val] * (len(vs) + 1)))(*vs)
        for pycls in getattr(self.reg, 'theory_never_returns', []):
            # raw operations yield raw values, never one of pedal's proxies
            self.st.assume(z3.Not(z3.And(Val.is_o(r), V.subclass(self.st.cls_of(Val.ref(r)), z3.IntVal(V.cid_of(pycls))))))
        self.st.assume(r != V.ABSENT)
        return r

    THEORY_BUILTINS = {'str': str, 'repr': repr, 'int': int, 'float': float, 'complex': complex, 'bool': bool,
                       'hash': hash, 'len': len, 'format': format, 'iter': iter, 'reversed': reversed, 'bytes': bytes,
                       'dir': dir, 'round': round, 'abs': abs}

    def call_const(self, obj, args, kwargs, node):
        if self.theory_on() and not isinstance(obj, SpecFn) and self.reg.function_contract(obj) is None:
            import math as _math
            import operator as _operator
            for nm, fn in self.THEORY_BUILTINS.items():
                if obj is fn:
                    return self.theory(nm, args)
            if getattr(obj, '__module__', None) == 'math' and callable(obj):
                return self.theory('math_' + obj.__name__, args)
            if getattr(obj, '__module__', None) == '_operator' and callable(obj):
                return self.theory('operator_' + obj.__name__, args)
        # 1. spec functions of the sidecar
        if isinstance(obj, SpecFn):
            return self.call_spec(obj, args, kwargs)
        # 2. contracts (verified / assumed / abstract)
        c = self.reg.function_contract(obj)
        if c is not None:
            return self.call_contract(c, args, kwargs)
        # 3. builtins and stdlib handled by the engine
        name = getattr(obj, '__name__', None)
        if obj in BUILTIN_HANDLERS:
            return BUILTIN_HANDLERS[obj](self, args, kwargs, node)
        # 4. classes
        if isinstance(obj, type):
            return self.construct(obj, args, kwargs, node)
        raise Unsupported('call of %s without a contract (line %s)' % (
            getattr(obj, '__qualname__', repr(obj)), getattr(node, 'lineno', '?')))

    def construct(self, cls, args, kwargs, node):
        if issubclass(cls, BaseException):
            if self.pure:
                raise Unsupported('exception construction in specification')
            r = self.st.alloc_obj(cls)
            self.st.set_attr(r, 'args', V.mk_tuple([self.to_val(a) for a in args]))
            return Val.o(r)
        c = self.reg.function_contract(cls.__init__) or self.reg.function_contract(cls)
        if c is not None:
            if self.pure:
                raise Unsupported('constructor in specification')
            r = self.st.alloc_obj(cls)
            me = Val.o(r)
            self.mark_fresh_instance(r)
            self.call_contract(c, [me] + list(args), kwargs)
            return me
        raise Unsupported('constructor of %s without a contract' % cls.__qualname__)

    def mark_fresh_instance(self, r):
        """a new instance has no instance attributes"""
        h = self.st.heap
        h.havocs.append((r, -1))
        for key in list(h.arrs):
            if isinstance(key, tuple) and key[0] == 'attr':
                h.arrs[key] = z3.Store(h.arrs[key], r, V.ABSENT)

    # method dispatch ---------------------------------------------------------------------------
    def call_method(self, recv, name, args, kwargs, node):
        if isinstance(recv, PyConst):
            return self.call_const_method(recv.obj, name, args, kwargs, node)
        if isinstance(recv, SeqV):
            return self.seqv_method(recv, name, args)
        if isinstance(recv, Closure):
            raise Unsupported('method of closure')
        recv = self.to_val(recv)
        st = self.st
        if self.theory_on() and name.startswith('__') and name.endswith('__') and not self.pure:
            for pycls, c in sorted(self.reg.by_method.get(name, []), key=lambda pc: -len(pc[0].__mro__)):
                if st.branch(z3.And(Val.is_o(recv), V.subclass(st.cls_of(Val.ref(recv)), z3.IntVal(V.cid_of(pycls))))):
                    return self.call_contract(c, [recv] + list(args), kwargs)
            return self.theory('dunder' + name, [recv] + list(args))
        if self.pure:
            return self.pure_method(recv, name, args, kwargs)
        if st.branch(Val.is_o(recv)):
            ref = Val.ref(recv)
            cls = st.cls_of(ref)
            if name in LIST_METHODS and st.branch(cls == V.LIST_CID):
                return self.list_method(ref, name, args, kwargs, node)
            if name in DICT_METHODS and st.branch(cls == V.DICT_CID):
                return self.dict_method(ref, name, args, kwargs)
            if name in SET_METHODS and st.branch(cls == V.SET_CID):
                return self.set_method(ref, name, args, kwargs)
            c = self.reg.method_contract(self, recv, name, node)
            if c is not None:
                if c.options.get('binding') == 'staticmethod':
                    return self.call_contract(c, list(args), kwargs)
                return self.call_contract(c, [recv] + list(args), kwargs)
            raise Unsupported('method %s of an instance without a contract (line %s)' % (
                name, getattr(node, 'lineno', '?')))
        if name in STR_METHODS and st.branch(Val.is_s(recv)):
            return self.str_method(Val.sv(recv), name, args, kwargs)
        if st.branch(Val.is_c(recv)):
            raise Unsupported('method %s of a symbolic class value' % name)
        self.raise_(AttributeError, name)

    def pure_method(self, recv, name, args, kwargs):
        if name in STR_METHODS and name not in ('count', 'copy'):
            return self.str_method(Val.sv(recv), name, args, kwargs)
        if name == 'get':
            amap = self.st.sel(self.heap.get('dmap'), Val.ref(recv))
            v = z3.Select(amap, self.to_val(args[0]))
            d = self.to_val(args[1]) if len(args) > 1 else V.NONE
            return z3.If(v == V.ABSENT, d, v)
        raise Unsupported('method %s in specification' % name)

    def call_const_method(self, obj, name, args, kwargs, node):
        if isinstance(obj, dict) and name == 'get':
            k = self.to_val(args[0])
            default = args[1] if len(args) > 1 else V.NONE
            out = self.to_val(default)
            for kk, vv in reversed(list(obj.items())):
                if not simple_literal(vv):
                    raise Unsupported('constant dict with complex values')
                out = z3.If(self.eq(k, lit(kk)), lit(vv), out)
            return out
        if isinstance(obj, dict) and name in ('keys', 'values', 'items'):
            return PyConst(list(getattr(obj, name)()))
        if isinstance(obj, (list, tuple)) and name == 'index':
            x = self.to_val(args[0])
            out = V.mk_int(-1)
            for i, e in reversed(list(enumerate(obj))):
                out = z3.If(self.eq(x, lit(e)), V.mk_int(i), out)
            if not self.pure:
                present = z3.Or(*[self.eq(x, lit(e)) for e in obj]) if obj else z3.BoolVal(False)
                if not self.st.branch(present):
                    self.raise_(ValueError, 'not in list')
            return out
        if isinstance(obj, str) and name in STR_METHODS:
            return self.str_method(z3.StringVal(obj), name, args, kwargs)
        try:
            f = getattr(obj, name)
        except AttributeError:
            self.raise_(AttributeError, name)
        if isinstance(obj, type) and not isinstance(f, _types.MethodType) and callable(f) and \
                not isinstance(obj.__dict__.get(name), staticmethod):
            # unbound method called through the class: Class.method(self, ...)
            return self.call_const(f, args, kwargs, node)
        if isinstance(f, _types.MethodType) and isinstance(obj, type):
            # classmethod: the class is the first argument
            c = self.reg.function_contract(f.__func__)
            if c is not None:
                return self.call_contract(c, [PyConst(obj)] + list(args), kwargs)
        return self.call_const(f, args, kwargs, node)

    # -- str ---------------------------------------------------------------------------------
    def str_method(self, s, name, args, kwargs):
        av = [self.to_val(a) for a in args]
        if name == 'lower':
            self.st.assumptions.add('A-str: str.lower is an uninterpreted function')
            return Val.s(STR_LOWER(s))
        if name == 'upper':
            self.st.assumptions.add('A-str: str.upper is an uninterpreted function')
            return Val.s(STR_UPPER(s))
        if name == 'strip' and not av:
            self.st.assumptions.add('A-str: str.strip is an uninterpreted function')
            return Val.s(STR_STRIP(s))
        if name == 'rstrip' and not av:
            self.st.assumptions.add('A-str: str.rstrip is an uninterpreted function')
            return Val.s(STR_RSTRIP(s))
        if name == 'startswith' and len(av) == 1:
            return Val.b(z3.PrefixOf(Val.sv(av[0]), s))
        if name == 'endswith' and len(av) == 1:
            return Val.b(z3.SuffixOf(Val.sv(av[0]), s))
        if name == 'join' and len(args) == 1:
            it = args[0]
            if V.is_val(it) and z3.is_string_value(z3.simplify(s)) and z3.simplify(s).as_string() == '':
                iv = self.to_val(it)
                if V.tagname(iv) == 's' or (V.tagname(iv) is None and not self.pure and self.st.branch(Val.is_s(iv))):
                    return iv          # ''.join(text) is the text itself
            if isinstance(it, SeqV) or True:
                seq = it.seq if isinstance(it, SeqV) else self.seq_of_value(it)
                self.st.assumptions.add('A-str: str.join over a symbolic sequence is the uninterpreted fold `str_join`')
                return Val.s(V.uf('str_join', V.S, SeqVal, V.S)(s, seq))
        if name == 'split' and len(av) <= 1:
            self.st.assumptions.add('A-str: str.split is the uninterpreted function `str_split`')
            sep = Val.sv(av[0]) if av else z3.StringVal('\x00ws')
            seq = V.uf('str_split', V.S, V.S, SeqVal)(s, sep)
            return SeqV(seq) if self.pure else self.st.new_list(seq)
        if name == 'splitlines' and not av:
            self.st.assumptions.add('A-str: str.splitlines is the uninterpreted function `str_splitlines`')
            seq = V.uf('str_splitlines', V.S, SeqVal)(s)
            return SeqV(seq) if self.pure else self.st.new_list(seq)
        if name == 'count' and len(av) == 1:
            if not self.pure and not self.st.branch(Val.is_s(av[0])):
                self.raise_(TypeError, 'must be str')
            self.st.assumptions.add('A-str: str.count is the uninterpreted function `str_count` (non-negative)')
            cnt = V.uf('str_count', V.S, V.S, V.I)(s, Val.sv(av[0]))
            self.st.assume(cnt >= 0)
            return Val.i(cnt)
        if name == 'format':
            # constant template with plain positional `{}` fields only: the pieces joined with str() of the arguments
            tmpl = z3.simplify(s)
            if z3.is_string_value(tmpl) and not kwargs:
                import re as _re
                text = tmpl.as_string()
                pieces = _re.split(r'\{\}', text)
                if '{' not in ''.join(pieces) and '}' not in ''.join(pieces) and len(pieces) - 1 <= len(av):
                    parts = [z3.StringVal(pieces[0])]
                    for a, piece in zip(av, pieces[1:]):
                        parts.append(self.str_term(a))
                        parts.append(z3.StringVal(piece))
                    return Val.s(z3.Concat(*parts) if len(parts) > 1 else parts[0])
            raise Unsupported('str.format')
        raise Unsupported('str.%s' % name)

    def seq_of_value(self, v):
        if isinstance(v, SeqV):
            return v.seq
        v = self.to_val(v)
        tag = V.tagname(v)
        if tag == 't':
            return Val.tv(v)
        if self.pure:
            return z3.If(Val.is_t(v), Val.tv(v), self.st.sel(self.heap.get('list'), Val.ref(v)))
        if self.st.branch(Val.is_t(v)):
            return Val.tv(v)
        if self.st.branch(z3.And(Val.is_o(v), z3.Or(self.st.cls_of(Val.ref(v)) == V.LIST_CID,
                                                     self.st.cls_of(Val.ref(v)) == V.SET_CID))):
            return self.st.items(Val.ref(v))
        raise Unsupported('sequence view of a non-sequence')

    def seqv_method(self, recv, name, args):
        raise Unsupported('method %s of specification sequence' % name)

    # -- list --------------------------------------------------------------------------------
    def list_method(self, ref, name, args, kwargs, node=None):
        st = self.st
        items = st.items(ref)
        if name == 'append':
            x = self.to_val(args[0])
            st.set_items(ref, z3.Concat(items, z3.Unit(x)))
            return V.NONE
        if name == 'extend':
            st.set_items(ref, z3.Concat(items, self.seq_of_value(args[0])))
            return V.NONE
        if name == 'clear':
            st.set_items(ref, z3.Empty(SeqVal))
            return V.NONE
        if name == 'copy':
            return st.new_list(items)
        if name == 'pop':
            n = z3.Length(items)
            if not args:
                if st.branch(n == 0):
                    self.raise_(IndexError, 'pop from empty list')
                st.set_items(ref, z3.Extract(items, 0, n - 1))
                st.assume(items[n - 1] != V.ABSENT)
                return items[n - 1]
            idx = self.to_val(args[0])
            if not st.branch(is_intlike(idx)):
                self.raise_(TypeError, 'index')
            k = num_int(idx)
            if not st.branch(z3.And(k < n, k >= -n)):
                self.raise_(IndexError, 'pop index out of range')
            k = z3.If(k < 0, k + n, k)
            st.set_items(ref, z3.Concat(z3.Extract(items, 0, k), z3.Extract(items, k + 1, n - k - 1)))
            st.assume(items[k] != V.ABSENT)
            return items[k]
        if name == 'insert':
            idx = self.to_val(args[0])
            n = z3.Length(items)
            k = num_int(idx)
            k = z3.If(k < 0, z3.If(k + n < 0, 0, k + n), z3.If(k > n, n, k))
            st.set_items(ref, z3.Concat(z3.Extract(items, 0, k), z3.Unit(self.to_val(args[1])),
                                        z3.Extract(items, k, n - k)))
            return V.NONE
        if name == 'sort':
            c = self.reg.named_contract('list.sort')
            if c is None:
                raise Unsupported('list.sort without an assumed contract')
            return self.call_contract(c, [Val.o(ref)], kwargs)
        if name == 'remove':
            x = self.to_val(args[0])
            if not st.branch(z3.Contains(items, z3.Unit(x))):
                self.raise_(ValueError, 'list.remove(x): x not in list')
            k = z3.IndexOf(items, z3.Unit(x), 0)
            n = z3.Length(items)
            st.set_items(ref, z3.Concat(z3.Extract(items, 0, k), z3.Extract(items, k + 1, n - k - 1)))
            return V.NONE
        raise Unsupported('list.%s' % name)

    # -- dict --------------------------------------------------------------------------------
    def dict_method(self, ref, name, args, kwargs):
        st = self.st
        amap, keys = st.dmap(ref), st.dkeys(ref)
        if name == 'get':
            v = z3.Select(amap, self.to_val(args[0]))
            d = self.to_val(args[1]) if len(args) > 1 else V.NONE
            r = z3.If(v == V.ABSENT, d, v)
            st.note_ref(r)
            return r
        if name == 'clear':
            st.set_dict(ref, z3.Empty(SeqVal), z3.K(Val, V.ABSENT))
            return V.NONE
        if name == 'keys':
            return IterV(z3.Length(keys), lambda k: keys[k], 'dict.keys')
        if name == 'items':
            self.assume_dict_wf(ref)
            return IterV(z3.Length(keys), lambda k: V.mk_tuple([keys[k], z3.Select(amap, keys[k])]), 'dict.items')
        if name == 'values':
            self.assume_dict_wf(ref)
            return IterV(z3.Length(keys), lambda k: z3.Select(amap, keys[k]), 'dict.values')
        if name == 'copy':
            return st.new_dict(keys, amap)
        if name == 'setdefault':
            k = self.to_val(args[0])
            d = self.to_val(args[1]) if len(args) > 1 else V.NONE
            if st.branch(z3.Select(amap, k) == V.ABSENT):
                self.dict_set(ref, k, d)
                return d
            return z3.Select(amap, k)
        if name == 'pop':
            k = self.to_val(args[0])
            v = z3.Select(amap, k)
            if st.branch(v == V.ABSENT):
                if len(args) > 1:
                    return self.to_val(args[1])
                self.raise_(KeyError, k)
            i = z3.IndexOf(keys, z3.Unit(k), 0)
            n = z3.Length(keys)
            st.set_dict(ref, z3.Concat(z3.Extract(keys, 0, i), z3.Extract(keys, i + 1, n - i - 1)),
                        z3.Store(amap, k, V.ABSENT))
            return v
        if name == 'update':
            other = args[0]
            if isinstance(other, PyConst) and isinstance(other.obj, dict):
                for kk, vv in other.obj.items():
                    self.dict_set(ref, lit(kk), lit(vv))
                return V.NONE
            ov = self.to_val(other)
            if not st.branch(z3.And(Val.is_o(ov), st.cls_of(Val.ref(ov)) == V.DICT_CID)):
                raise Unsupported('dict.update with a non-dict argument')
            omap = st.dmap(Val.ref(ov))
            nk = st.fresh('upd_keys', SeqVal)
            nm = st.fresh('upd_map', z3.ArraySort(Val, Val))
            kk = z3.Const(st.fresh_name('upd_k'), Val)
            st.pc.append(z3.ForAll([kk], z3.Select(nm, kk) == z3.If(z3.Select(omap, kk) != V.ABSENT, z3.Select(omap, kk),
                                                                    z3.Select(amap, kk))))
            st.set_dict(ref, nk, nm)
            st.assumptions.add('A-dict: after d.update(e) the key order of d is unspecified (only the mapping is modelled)')
            return V.NONE
        raise Unsupported('dict.%s' % name)

    def assume_dict_wf(self, ref):
        """keys sequence and map agree: every listed key is present (A-dict)"""
        keys, amap = self.st.dkeys(ref), self.st.dmap(ref)
        k = z3.Int(self.st.fresh_name('dk'))
        self.st.pc.append(z3.ForAll([k], z3.Implies(z3.And(0 <= k, k < z3.Length(keys)),
                                                    z3.Select(amap, keys[k]) != V.ABSENT)))

    # -- set ---------------------------------------------------------------------------------
    def set_method(self, ref, name, args, kwargs):
        st = self.st
        items = st.items(ref)
        if name == 'add':
            x = self.to_val(args[0])
            st.set_items(ref, z3.If(z3.Contains(items, z3.Unit(x)), items, z3.Concat(items, z3.Unit(x))))
            return V.NONE
        if name == 'clear':
            st.set_items(ref, z3.Empty(SeqVal))
            return V.NONE
        raise Unsupported('set.%s' % name)

    # -- spec functions and contracts -----------------------------------------------------------
    def call_spec(self, spec, args, kwargs):
        node = spec.node
        names = [a.arg for a in node.args.args]
        env = {}
        for n, a in zip(names, args):
            env[n] = a
        env.update(kwargs)
        ndef = len(node.args.defaults)
        for i, n in enumerate(names):
            if n not in env:
                di = i - (len(names) - ndef)
                if di < 0:
                    raise Unsupported('spec %s: missing argument %s' % (spec.name, n))
                env[n] = self.sub(env={}, pure=True, glob=spec.glob).ev(node.args.defaults[di])
        sub = self.sub(env=env, pure=True, glob=spec.glob)
        for stmt in node.body:
            if isinstance(stmt, ast.Expr) and isinstance(stmt.value, ast.Constant):
                continue
            if isinstance(stmt, ast.Assign) and len(stmt.targets) == 1 and isinstance(stmt.targets[0], ast.Name):
                env[stmt.targets[0].id] = sub.ev(stmt.value)
            elif isinstance(stmt, ast.Return):
                return sub.ev(stmt.value)
            else:
                raise Unsupported('spec function %s: only let-assignments and return' % spec.name)
        raise Unsupported('spec function %s does not return' % spec.name)

    def call_contract(self, c, args, kwargs):
        from .contracts import apply_contract
        return apply_contract(self, c, args, kwargs)

    # -- specification vocabulary ------------------------------------------------------------------
    def spec_old(self, node):
        if self.old is None:
            raise Unsupported('old() outside a postcondition')
        heap, env = self.old
        sub = self.sub(env=dict(env, **{k: v for k, v in self.env.items() if k not in env}), heap=heap, pure=True)
        return sub.ev(node.args[0])

    def spec_implies(self, node):
        a = self.truth(self.ev(node.args[0]))
        b = self.truth(self.ev(node.args[1]))
        return Val.b(z3.Implies(a, b))

    def spec_iff(self, node):
        a = self.truth(self.ev(node.args[0]))
        b = self.truth(self.ev(node.args[1]))
        return Val.b(a == b)

    def spec_truthy(self, node):
        return Val.b(self.truth(self.ev(node.args[0])))

    def _quant(self, node, which):
        lam = node.args[0]
        if not isinstance(lam, ast.Lambda):
            raise Unsupported('forall/exists needs a lambda')
        names = [a.arg for a in lam.args.args]
        ks = [z3.Int(self.st.fresh_name('q_' + n)) for n in names]
        env = dict(self.env)
        for n, k in zip(names, ks):
            env[n] = Val.i(k)
        sub = self.sub(env=env, pure=True)
        body = sub.truth(sub.ev(lam.body))
        guards = []
        if len(node.args) >= 3:
            lo = num_int(self.to_val(self.ev(node.args[1])))
            hi = num_int(self.to_val(self.ev(node.args[2])))
            # the range bounds the first variable; further variables are bounded inside the body
            guards.append(z3.And(lo <= ks[0], ks[0] < hi))
        g = z3.And(*guards) if guards else z3.BoolVal(True)
        if which == 'forall':
            return Val.b(z3.ForAll(ks, z3.Implies(g, body)))
        return Val.b(z3.Exists(ks, z3.And(g, body)))

    def spec_forall(self, node):
        return self._quant(node, 'forall')

    def spec_exists(self, node):
        return self._quant(node, 'exists')

    def spec_items(self, node):
        v = self.to_val(self.ev(node.args[0]))
        return SeqV(self.st.sel(self.heap.get('list'), Val.ref(v)))

    def spec_keys(self, node):
        v = self.to_val(self.ev(node.args[0]))
        return SeqV(self.st.sel(self.heap.get('dkeys'), Val.ref(v)))

    def spec_mapping(self, node):
        v = self.to_val(self.ev(node.args[0]))
        return MapV(self.st.sel(self.heap.get('dmap'), Val.ref(v)))

    def spec_tuple_items(self, node):
        v = self.to_val(self.ev(node.args[0]))
        return SeqV(Val.tv(v))

    def spec_is_str(self, node):
        return Val.b(Val.is_s(self.to_val(self.ev(node.args[0]))))

    def spec_is_int(self, node):
        return Val.b(Val.is_i(self.to_val(self.ev(node.args[0]))))

    def spec_is_bool(self, node):
        return Val.b(Val.is_b(self.to_val(self.ev(node.args[0]))))

    def spec_is_float(self, node):
        return Val.b(Val.is_f(self.to_val(self.ev(node.args[0]))))

    def spec_is_none(self, node):
        return Val.b(Val.is_none(self.to_val(self.ev(node.args[0]))))

    def spec_is_tuple(self, node):
        return Val.b(Val.is_t(self.to_val(self.ev(node.args[0]))))

    def spec_is_number(self, node):
        v = self.to_val(self.ev(node.args[0]))
        return Val.b(z3.Or(Val.is_i(v), Val.is_f(v)))

    def spec_is_obj(self, node):
        return Val.b(Val.is_o(self.to_val(self.ev(node.args[0]))))

    def spec_is_list(self, node):
        v = self.to_val(self.ev(node.args[0]))
        return Val.b(z3.And(Val.is_o(v), self.st.sel(self.heap.get('cls'), Val.ref(v)) == V.LIST_CID))

    def spec_is_dict(self, node):
        v = self.to_val(self.ev(node.args[0]))
        return Val.b(z3.And(Val.is_o(v), self.st.sel(self.heap.get('cls'), Val.ref(v)) == V.DICT_CID))

    def spec_is_set(self, node):
        v = self.to_val(self.ev(node.args[0]))
        return Val.b(z3.And(Val.is_o(v), self.st.sel(self.heap.get('cls'), Val.ref(v)) == V.SET_CID))

    def spec_instance_of(self, node):
        v = self.to_val(self.ev(node.args[0]))
        c = self.ev(node.args[1])
        if not isinstance(c, PyConst) or not isinstance(c.obj, type):
            raise Unsupported('instance_of needs a class constant')
        return Val.b(z3.And(Val.is_o(v), V.subclass(self.st.sel(self.heap.get('cls'), Val.ref(v)),
                                                    z3.IntVal(V.cid_of(c.obj)))))

    def spec_exact_instance(self, node):
        v = self.to_val(self.ev(node.args[0]))
        c = self.ev(node.args[1])
        return Val.b(z3.And(Val.is_o(v), self.st.sel(self.heap.get('cls'), Val.ref(v)) == z3.IntVal(V.cid_of(c.obj))))

    def spec_fresh(self, node):
        """object did not exist in the pre-state"""
        v = self.to_val(self.ev(node.args[0]))
        pre_alloc = self.specials.get('__pre_alloc__')
        if pre_alloc is None:
            raise Unsupported('fresh() outside a postcondition')
        return Val.b(z3.And(Val.is_o(v), Val.ref(v) >= pre_alloc))

    def spec_allocated(self, node):
        v = self.to_val(self.ev(node.args[0]))
        return Val.b(z3.Implies(Val.is_o(v), Val.ref(v) < self.st.alloc))

    def spec_has_attr(self, node):
        v = self.to_val(self.ev(node.args[0]))
        name = node.args[1].value
        return Val.b(self.attr_term(Val.ref(v), name) != V.ABSENT)

    def spec_own_attr(self, node):
        v = self.to_val(self.ev(node.args[0]))
        name = node.args[1].value
        return self.attr_term(Val.ref(v), name)

    def spec_distinct(self, node):
        vs = [self.to_val(self.ev(a)) for a in node.args]
        return Val.b(z3.Distinct(*vs)) if len(vs) > 1 else V.mk_bool(True)

    def spec_forall_val(self, node):
        lam = node.args[0]
        names = [a.arg for a in lam.args.args]
        xs = [z3.Const(self.st.fresh_name('qv_' + n), Val) for n in names]
        env = dict(self.env)
        for n, x in zip(names, xs):
            env[n] = x
        sub = self.sub(env=env, pure=True)
        return Val.b(z3.ForAll(xs, sub.truth(sub.ev(lam.body))))

    def spec_exists_val(self, node):
        lam = node.args[0]
        names = [a.arg for a in lam.args.args]
        xs = [z3.Const(self.st.fresh_name('qv_' + n), Val) for n in names]
        env = dict(self.env)
        for n, x in zip(names, xs):
            env[n] = x
        sub = self.sub(env=env, pure=True)
        return Val.b(z3.Exists(xs, sub.truth(sub.ev(lam.body))))

    def spec_upred(self, node):
        name = node.args[0].value
        vs = [self.to_val(self.ev(a)) for a in node.args[1:]]
        return Val.b(V.uf('u_' + name, *([Val] * len(vs) + [V.B]))(*vs))

    def spec_ufun(self, node):
        name = node.args[0].value
        vs = [self.to_val(self.ev(a)) for a in node.args[1:]]
        return V.uf('u_' + name, *([Val] * (len(vs) + 1)))(*vs)

    def spec_str_of(self, node):
        return Val.s(self.str_term(self.to_val(self.ev(node.args[0]))))

    def spec_entry(self, node):
        ent = self.specials.get('__loop_entry__')
        if ent is None:
            raise Unsupported('entry() outside a loop invariant')
        heap, env = ent
        sub = self.sub(env=dict(env), heap=heap, pure=True)
        return sub.ev(node.args[0])

    def spec_has_key(self, node):
        d = self.to_val(self.ev(node.args[0]))
        k = self.to_val(self.ev(node.args[1]))
        return Val.b(z3.Select(self.st.sel(self.heap.get('dmap'), Val.ref(d)), k) != V.ABSENT)

    def spec_at(self, node):
        d = self.to_val(self.ev(node.args[0]))
        k = self.to_val(self.ev(node.args[1]))
        return z3.Select(self.st.sel(self.heap.get('dmap'), Val.ref(d)), k)

    def spec_get(self, node):
        d = self.to_val(self.ev(node.args[0]))
        k = self.to_val(self.ev(node.args[1]))
        dflt = self.to_val(self.ev(node.args[2])) if len(node.args) > 2 else V.NONE
        v = z3.Select(self.st.sel(self.heap.get('dmap'), Val.ref(d)), k)
        return z3.If(v == V.ABSENT, dflt, v)

    def spec_nitems(self, node):
        v = self.to_val(self.ev(node.args[0]))
        return Val.i(z3.Length(self.st.sel(self.heap.get('list'), Val.ref(v))))

    def spec_item(self, node):
        v = self.to_val(self.ev(node.args[0]))
        k = num_int(self.to_val(self.ev(node.args[1])))
        return seq_nth(self.st.sel(self.heap.get('list'), Val.ref(v)), k)

    def spec_nkeys(self, node):
        v = self.to_val(self.ev(node.args[0]))
        return Val.i(z3.Length(self.st.sel(self.heap.get('dkeys'), Val.ref(v))))

    def spec_key_at(self, node):
        v = self.to_val(self.ev(node.args[0]))
        k = num_int(self.to_val(self.ev(node.args[1])))
        return self.st.sel(self.heap.get('dkeys'), Val.ref(v))[k]

    def spec_ufun_seq(self, node):
        name = node.args[0].value
        vs = [self.to_val(self.ev(a)) for a in node.args[1:]]
        return SeqV(V.uf('us_' + name, *([Val] * len(vs) + [SeqVal]))(*vs))

    def spec_count_def(self, node):
        """definitional axioms of a counting function: cnt(0) = 0, cnt(k+1) = cnt(k) + [pred(k)]"""
        name = node.args[0].value
        lam = node.args[1]
        cnt = V.uf('cnt_' + name + self.uf_scope(), V.I, V.I)
        k = z3.Int(self.st.fresh_name('cd_k'))
        env = dict(self.env)
        env[lam.args.args[0].arg] = Val.i(k)
        sub = self.sub(env=env, pure=True)
        pred = sub.truth(sub.ev(lam.body))
        return Val.b(z3.And(cnt(0) == 0,
                            z3.ForAll([k], z3.Implies(k >= 0, cnt(k + 1) == cnt(k) + z3.If(pred, 1, 0)),
                                      patterns=[cnt(k + 1)])))

    def spec_count_at(self, node):
        name = node.args[0].value
        cnt = V.uf('cnt_' + name + self.uf_scope(), V.I, V.I)
        return Val.i(cnt(num_int(self.to_val(self.ev(node.args[1])))))

    def spec_sum_def(self, node):
        """definitional axioms of a real-valued prefix sum: S(0) = 0, S(k+1) = S(k) + term(k)"""
        name = node.args[0].value
        lam = node.args[1]
        S = V.uf('sum_' + name + self.uf_scope(), V.I, V.R)
        k = z3.Int(self.st.fresh_name('sd_k'))
        env = dict(self.env)
        env[lam.args.args[0].arg] = Val.i(k)
        sub = self.sub(env=env, pure=True)
        term = num_real(sub.to_val(sub.ev(lam.body)))
        return Val.b(z3.And(S(0) == 0, z3.ForAll([k], z3.Implies(k >= 0, S(k + 1) == S(k) + term), patterns=[S(k + 1)])))

    def spec_sum_at(self, node):
        name = node.args[0].value
        S = V.uf('sum_' + name + self.uf_scope(), V.I, V.R)
        return Val.f(S(num_int(self.to_val(self.ev(node.args[1])))))

    def spec_ufun_int(self, node):
        name = node.args[0].value
        vs = [self.to_val(self.ev(a)) for a in node.args[1:]]
        return Val.i(V.uf('ui_' + name, *([Val] * len(vs) + [V.I]))(*vs))

    def spec_ufun_real(self, node):
        name = node.args[0].value
        vs = [self.to_val(self.ev(a)) for a in node.args[1:]]
        return Val.f(V.uf('ur_' + name, *([Val] * len(vs) + [V.R]))(*vs))

    def spec_round2(self, node):
        v = self.to_val(self.ev(node.args[0]))
        return Val.f(ROUND2(num_real(v), z3.IntVal(2)))

    def spec_eqv(self, node):
        """structural equality of two values (no int/float/bool coercion, no __eq__)"""
        a = self.to_val(self.ev(node.args[0]))
        b = self.to_val(self.ev(node.args[1]))
        return Val.b(a == b)

    def spec_bv(self, node):
        """the Boolean carried by a value known to be a bool"""
        return Val.b(Val.bv(self.to_val(self.ev(node.args[0]))))

    def uf_scope(self):
        """definitional function symbols are private to one contract application"""
        return self.specials.get('__scope__', '') or getattr(self, 'scope', '')

    def spec_ufun_on_seq(self, node):
        name = node.args[0].value
        sq = self.ev(node.args[1])
        if not isinstance(sq, SeqV):
            raise Unsupported('ufun_on_seq needs a sequence')
        return V.uf('uq_' + name, SeqVal, Val)(sq.seq)

    def spec_seq_sum(self, node):
        """seq_sum(fn, seq, k): sum of real(fn(seq[j])) for j < k, as a global function of the
        sequence (fn must be a heap-independent unary spec function); definitional axioms are
        added once per path."""
        fn = self.ev(node.args[0])
        if not isinstance(fn, PyConst) or not isinstance(fn.obj, SpecFn):
            raise Unsupported('seq_sum needs a spec function')
        sf = fn.obj
        F = V.uf('seqsum_' + sf.name, SeqVal, V.I, V.R)
        key = 'seqsum_' + sf.name
        if key not in self.st.ghost:
            self.st.ghost[key] = True
            sq = z3.Const('ss_s', SeqVal)
            k = z3.Int('ss_k')
            sub = self.sub(env={}, pure=True)
            term = num_real(sub.to_val(sub.call_spec(sf, [sq[k]], {})))
            self.st.axioms.append(z3.ForAll([sq], F(sq, 0) == 0, patterns=[F(sq, 0)]))
            self.st.axioms.append(z3.ForAll([sq, k], z3.Implies(k >= 0, F(sq, k + 1) == F(sq, k) + term),
                                            patterns=[F(sq, k + 1)]))
        sv = self.ev(node.args[1])
        if not isinstance(sv, SeqV):
            raise Unsupported('seq_sum needs a sequence')
        return Val.f(F(sv.seq, num_int(self.to_val(self.ev(node.args[2])))))

    def spec_old_or_empty(self, node):
        """the items of a list, or the empty sequence when `flag` is truthy (set_input's clear)"""
        flag = self.truth(self.ev(node.args[0]))
        lst = self.to_val(self.ev(node.args[1]))
        return SeqV(z3.If(flag, z3.Empty(SeqVal), self.st.sel(self.heap.get('list'), Val.ref(lst))))

    def spec_elements(self, node):
        """elements of a list or tuple value"""
        v = self.to_val(self.ev(node.args[0]))
        return SeqV(z3.If(Val.is_t(v), Val.tv(v), self.st.sel(self.heap.get('list'), Val.ref(v))))

    def spec_comp_map(self, node):
        """comp_map(lambda x: f(x), seq): the same term the engine gives to [f(x) for x in seq]"""
        lam = node.args[0]
        sv = self.ev(node.args[1])
        if not isinstance(sv, SeqV) or not isinstance(lam, ast.Lambda):
            raise Unsupported('comp_map(lambda x: ..., sequence)')
        it = IterV(z3.Length(sv.seq), lambda k: sv.seq[k], 'seq', seq=sv.seq)
        m = self.named_map(lam.args.args[0].arg, lam.body, it)
        if m is None:
            raise Unsupported('comp_map: element expression is not heap-independent')
        return SeqV(m)

    def spec_join(self, node):
        """join(sep, seq): the same term the engine gives to sep.join(sequence)"""
        sep = self.to_val(self.ev(node.args[0]))
        sq = self.ev(node.args[1])
        return Val.s(V.uf('str_join', V.S, SeqVal, V.S)(Val.sv(sep), sq.seq))

    def spec_prefix(self, node):
        """prefix(seq, n): the first n elements (what a slice [:n] yields)"""
        sq = self.ev(node.args[0])
        n = num_int(self.to_val(self.ev(node.args[1])))
        ln = z3.Length(sq.seq)
        b = z3.If(n < 0, z3.If(n + ln < 0, z3.IntVal(0), n + ln), z3.If(n > ln, ln, n))
        return SeqV(z3.Extract(sq.seq, z3.IntVal(0), z3.If(b < 0, z3.IntVal(0), b)))

    def spec_strip(self, node):
        v = self.to_val(self.ev(node.args[0]))
        return Val.s(STR_STRIP(Val.sv(v)))

    def spec_ghost_val(self, node):
        """a ghost variable holding an arbitrary value (e.g. the process-wide trace function)"""
        name = node.args[0].value
        g = self.heap.ghost
        if name not in g:
            g[name] = z3.Const('G0v_' + name, Val)
            self.st.heap.ghost.setdefault(name, g[name])
        return g[name]

    def spec_op(self, node):
        """op(name, operands...): the operator theory's term for that operation"""
        name = node.args[0].value
        vs = [self.to_val(self.ev(a)) for a in node.args[1:]]
        return V.uf('th_' + name, *([Val] * (len(vs) + 1)))(*vs)

    def spec_lower(self, node):
        v = self.to_val(self.ev(node.args[0]))
        return Val.s(STR_LOWER(Val.sv(v)))

    def spec_ghost(self, node):
        """scalar ghost variables are integers (counters)"""
        name = node.args[0].value
        g = self.heap.ghost
        if name not in g:
            g[name] = Val.i(z3.Int('G0_' + name))
            self.st.heap.ghost.setdefault(name, g[name])
        return g[name]

    def spec_printed(self, node):
        """everything print() was called with so far (ghost), as a sequence of argument tuples"""
        g = self.heap.ghost
        if 'printed' not in g:
            g['printed'] = z3.Const('G0_printed', SeqVal)
            self.st.heap.ghost.setdefault('printed', g['printed'])
        return SeqV(g['printed'])

    def spec_rstrip(self, node):
        v = self.to_val(self.ev(node.args[0]))
        return Val.s(STR_RSTRIP(Val.sv(v)))

    def spec_str_count(self, node):
        """str_count(text, sub): the uninterpreted function that stands for text.count(sub) in verified code"""
        v = self.to_val(self.ev(node.args[0]))
        sub = self.to_val(self.ev(node.args[1]))
        return Val.i(V.uf('str_count', V.S, V.S, V.I)(Val.sv(v), Val.sv(sub)))

    def spec_split(self, node):
        v = self.to_val(self.ev(node.args[0]))
        sep = self.to_val(self.ev(node.args[1]))
        return SeqV(V.uf('str_split', V.S, V.S, SeqVal)(Val.sv(v), Val.sv(sep)))

    def spec_raw(self, node):
        """escape hatch: python expression over z3 evaluated by the contract loader"""
        raise Unsupported('raw()')

    def spec_seq_len(self, node):
        v = self.ev(node.args[0])
        if isinstance(v, SeqV):
            return Val.i(z3.Length(v.seq))
        raise Unsupported('seq_len of non-sequence')

    def spec_count_in(self, node):
        """number of occurrences (0 or 1 distinguishable) - Contains only"""
        raise Unsupported('count_in')

    def spec_real(self, node):
        v = self.to_val(self.ev(node.args[0]))
        return Val.f(num_real(v))

    def spec_same_seq(self, node):
        a = self.ev(node.args[0])
        b = self.ev(node.args[1])
        return Val.b(a.seq == b.seq)

    # ------------------------------------------------------------------ statements
    def exec_block(self, stmts):
        for s in stmts:
            self.exec(s)

    def exec(self, node):
        self.st.cur_line = getattr(node, 'lineno', None)
        if self.fn is not None and id(node) in self.fn.stmt_lines:
            self.fn.covered.add(self.fn.stmt_lines[id(node)])
        m = getattr(self, 'x_' + type(node).__name__, None)
        if m is None:
            raise Unsupported('statement %s at line %s' % (type(node).__name__, getattr(node, 'lineno', '?')))
        return m(node)

    def x_Pass(self, node):
        pass

    def x_Expr(self, node):
        if isinstance(node.value, ast.Constant):
            return
        self.ev(node.value)

    def x_Return(self, node):
        raise _Return(self.ev(node.value) if node.value is not None else V.NONE)

    def x_Break(self, node):
        raise _Break()

    def x_Continue(self, node):
        raise _Continue()

    def x_Assign(self, node):
        v = self.ev(node.value)
        for t in node.targets:
            self.bind_target(t, v)

    def x_AnnAssign(self, node):
        if node.value is not None:
            self.bind_target(node.target, self.ev(node.value))

    def x_AugAssign(self, node):
        t = node.target
        if isinstance(t, ast.Name):
            cur = self.ev(ast.Name(id=t.id, ctx=ast.Load()))
            self.env[t.id] = self.augop(type(node.op).__name__, cur, self.ev(node.value))
        elif isinstance(t, ast.Attribute):
            base = self.ev(t.value)
            cur = self.getattr_(base, t.attr)
            self.setattr_(base, t.attr, self.augop(type(node.op).__name__, cur, self.ev(node.value)))
        elif isinstance(t, ast.Subscript):
            base = self.ev(t.value)
            idx = self.ev(t.slice)
            cur = self.getitem(base, idx)
            self.setitem(base, idx, self.augop(type(node.op).__name__, cur, self.ev(node.value)))
        else:
            raise Unsupported('augmented assignment target')

    def augop(self, op, cur, v):
        curv = self.to_val(cur) if not isinstance(cur, SeqV) else cur
        if op == 'Add' and not isinstance(curv, SeqV):
            st = self.st
            if V.tagname(curv) is None and st.branch(z3.And(Val.is_o(curv), st.cls_of(Val.ref(curv)) == V.LIST_CID)):
                # list += iterable mutates in place
                self.list_method(Val.ref(curv), 'extend', [v], {})
                return curv
        return self.binop(op, cur, v)

    def bind_target(self, t, v):
        if isinstance(t, ast.Name):
            self.env[t.id] = v
        elif isinstance(t, ast.Attribute):
            self.setattr_(self.ev(t.value), t.attr, v)
        elif isinstance(t, ast.Subscript):
            if isinstance(t.slice, ast.Slice):
                raise Unsupported('slice assignment')
            self.setitem(self.ev(t.value), self.ev(t.slice), v)
        elif isinstance(t, (ast.Tuple, ast.List)):
            if isinstance(v, PyConst) and isinstance(v.obj, (tuple, list)):
                if len(v.obj) != len(t.elts):
                    self.raise_(ValueError, 'unpack')
                for e, x in zip(t.elts, v.obj):
                    self.bind_target(e, lit(x) if simple_literal(x) else PyConst(x))
                return
            seq = self.seq_of_value(v)
            n = len(t.elts)
            if self.pure:
                for i, e in enumerate(t.elts):
                    self.bind_target(e, seq[i])
                return
            if not self.st.branch(z3.Length(seq) == n):
                self.raise_(ValueError, 'unpack')
            for i, e in enumerate(t.elts):
                x = seq[i]
                self.st.note_ref(x)
                self.bind_target(e, x)
        else:
            raise Unsupported('assignment target %s' % type(t).__name__)

    def setattr_(self, base, name, v):
        if isinstance(base, PyConst):
            if isinstance(base.obj, type) and self.reg.class_attr_is_heap(base.obj, name):
                k = ('cattr', name)
                self.st.heap.set(k, z3.Store(self.st.heap.get(k), z3.IntVal(V.cid_of(base.obj)), self.to_val(v)))
                return
            raise Unsupported('assignment to attribute %s of constant %r' % (name, base.obj))
        base = self.to_val(base)
        if not self.st.branch(Val.is_o(base)):
            self.raise_(AttributeError, name)
        ref = Val.ref(base)
        cls = self.st.cls_of(ref)
        if self.st.branch(z3.Or(cls == V.LIST_CID, cls == V.DICT_CID, cls == V.SET_CID)):
            self.raise_(AttributeError, name)
        self.st.set_attr(ref, name, self.to_val(v))

    def setitem(self, base, idx, v):
        base = self.to_val(base)
        idx = self.to_val(idx)
        v = self.to_val(v)
        st = self.st
        if not st.branch(Val.is_o(base)):
            self.raise_(TypeError, 'object does not support item assignment')
        ref = Val.ref(base)
        cls = st.cls_of(ref)
        if st.branch(cls == V.DICT_CID):
            self.dict_set(ref, idx, v)
            return
        if st.branch(cls == V.LIST_CID):
            items = st.items(ref)
            if not st.branch(is_intlike(idx)):
                self.raise_(TypeError, 'list indices must be integers')
            k = num_int(idx)
            n = z3.Length(items)
            if not st.branch(z3.And(k < n, k >= -n)):
                self.raise_(IndexError, 'list assignment index out of range')
            k = z3.If(k < 0, k + n, k)
            st.set_items(ref, z3.Concat(z3.Extract(items, 0, k), z3.Unit(v), z3.Extract(items, k + 1, n - k - 1)))
            return
        c = self.reg.method_contract(self, base, '__setitem__')
        if c is not None:
            self.call_contract(c, [base, idx, v], {})
            return
        raise Unsupported('item assignment on an instance without a __setitem__ contract')

    def x_Delete(self, node):
        for t in node.targets:
            if isinstance(t, ast.Name):
                self.env.pop(t.id, None)
            elif isinstance(t, ast.Subscript):
                base = self.to_val(self.ev(t.value))
                idx = self.to_val(self.ev(t.slice))
                st = self.st
                if st.branch(z3.And(Val.is_o(base), st.cls_of(Val.ref(base)) == V.DICT_CID)):
                    self.dict_method(Val.ref(base), 'pop', [idx], {})
                else:
                    raise Unsupported('del on a non-dict')
            else:
                raise Unsupported('del target')

    def x_If(self, node):
        if self.mergeable_if(node):
            return self.merged_if(node)
        if self.test(self.ev(node.test)):
            self.exec_block(node.body)
        else:
            self.exec_block(node.orelse)

    @staticmethod
    def _simple_value(v):
        return isinstance(v, (ast.Name, ast.Constant)) and not (isinstance(v, ast.Constant) and isinstance(v.value, (bytes, complex)))

    def mergeable_if(self, node):
        """`if <test>: x = <name|constant> ...` (optionally with such an else): both outcomes are
        joined with an if-then-else term instead of forking the path (evaluating a local name or a
        constant cannot raise, so nothing is lost)."""
        def ok_block(stmts):
            for st_ in stmts:
                if not (isinstance(st_, ast.Assign) and len(st_.targets) == 1 and self._simple_value(st_.value)):
                    return False
                t = st_.targets[0]
                if isinstance(t, ast.Name):
                    if t.id not in self.env:
                        return False
                    continue
                if isinstance(t, ast.Attribute) and isinstance(t.value, ast.Name) and t.value.id in self.env:
                    continue
                return False
            return True
        if not node.body or not ok_block(node.body) or not ok_block(node.orelse):
            return False
        # the test itself must be a plain comparison of local names / constants with None-ness or identity
        t = node.test
        if isinstance(t, ast.Compare) and len(t.ops) == 1 and isinstance(t.ops[0], (ast.Is, ast.IsNot)) \
                and self._simple_value(t.left) and self._simple_value(t.comparators[0]):
            for n in (t.left, t.comparators[0]):
                if isinstance(n, ast.Name) and n.id not in self.env:
                    return False
            for stmts in (node.body, node.orelse):
                for st_ in stmts:
                    if isinstance(st_.value, ast.Name) and st_.value.id not in self.env:
                        return False
            return True
        return False

    def merged_if(self, node):
        c = self.truth(self.ev(node.test))
        st = self.st

        def current(t):
            if isinstance(t, ast.Name):
                return self.env.get(t.id)
            base = self.to_val(self.env[t.value.id])
            return self.attr_term(Val.ref(base), t.attr)

        def assign(t, v):
            if isinstance(t, ast.Name):
                self.env[t.id] = v
            else:
                base = self.to_val(self.env[t.value.id])
                if not st.branch(Val.is_o(base)):
                    self.raise_(AttributeError, t.attr)
                st.set_attr(Val.ref(base), t.attr, v)
        for stmts, cond in ((node.body, c), (node.orelse, z3.Not(c))):
            for st_ in stmts:
                if self.fn is not None and id(st_) in self.fn.stmt_lines:
                    self.fn.covered.add(self.fn.stmt_lines[id(st_)])      # reached under `cond` (merged, not forked)
                t = st_.targets[0]
                old = current(t)
                new = self.to_val(self.ev(st_.value))
                if old is None:
                    # a name first bound inside the branch: fork normally for this statement
                    raise Unsupported('conditional first binding of %s' % ast.unparse(t))
                assign(t, z3.If(cond, new, self.to_val(old)))

    def x_Assert(self, node):
        if not self.test(self.ev(node.test)):
            self.raise_(AssertionError)

    def x_Raise(self, node):
        if node.exc is None:
            cur = self.specials.get('__handling__')
            if cur is None:
                raise Unsupported('bare raise outside a handler')
            raise PyRaise(cur)
        e = self.ev(node.exc)
        if isinstance(e, PyConst) and isinstance(e.obj, type) and issubclass(e.obj, BaseException):
            self.raise_(e.obj)
        e = self.to_val(e)
        if not self.st.branch(Val.is_o(e)):
            self.raise_(TypeError, 'exceptions must derive from BaseException')
        raise PyRaise(e)

    def handle(self, node, pr):
        exc = pr.exc
        st = self.st
        cls = st.cls_of(Val.ref(exc))
        for h in node.handlers:
            if h.type is None:
                match = z3.BoolVal(True)
            else:
                t = self.ev(h.type)
                classes = []
                if isinstance(t, PyConst) and isinstance(t.obj, type):
                    classes = [t.obj]
                elif isinstance(t, PyConst) and isinstance(t.obj, tuple):
                    classes = list(t.obj)
                elif V.is_val(t):
                    from .pybuiltins import _class_list
                    classes = _class_list(self, t)
                else:
                    raise Unsupported('handler type')
                match = z3.Or(*[V.subclass(cls, z3.IntVal(V.cid_of(c))) for c in classes])
            if st.branch(match):
                if h.name:
                    self.env[h.name] = exc
                saved = self.specials.get('__handling__')
                self.specials = dict(self.specials, __handling__=exc)
                try:
                    self.exec_block(h.body)
                finally:
                    self.specials = dict(self.specials, __handling__=saved)
                    if h.name:
                        self.env.pop(h.name, None)
                return
        raise pr

    def x_With(self, node):
        if len(node.items) != 1:
            raise Unsupported('with several items')
        item = node.items[0]
        mgr = self.ev(item.context_expr)
        enter = self.call_method(mgr, '__enter__', [], {}, node)
        if item.optional_vars is not None:
            self.bind_target(item.optional_vars, enter)
        try:
            self.exec_block(node.body)
        except PyRaise as pr:
            r = self.call_method(mgr, '__exit__', [Val.c(self.st.cls_of(Val.ref(pr.exc))), pr.exc, V.NONE], {}, node)
            if self.test(r):
                return
            raise
        except (_Return, _Break, _Continue):
            self.call_method(mgr, '__exit__', [V.NONE, V.NONE, V.NONE], {}, node)
            raise
        self.call_method(mgr, '__exit__', [V.NONE, V.NONE, V.NONE], {}, node)

    def x_FunctionDef(self, node):
        self.env[node.name] = Closure(node, self.env, node.name)

    def x_Global(self, node):
        raise Unsupported('global statement')

    def x_Nonlocal(self, node):
        raise Unsupported('nonlocal statement')

    def x_Import(self, node):
        raise Unsupported('import inside a function body')

    def x_ImportFrom(self, node):
        import importlib
        mod = importlib.import_module(node.module)
        for a in node.names:
            self.env[a.asname or a.name] = PyConst(getattr(mod, a.name))

    # loops --------------------------------------------------------------------------------------
    def x_For(self, node):
        from .loops import exec_for
        exec_for(self, node)

    def x_While(self, node):
        from .loops import exec_while
        exec_while(self, node)


def _fix_try():
    """`x_Try` with proper finally semantics (defined separately for readability)."""
    def x_Try(self, node):
        def run():
            try:
                self.exec_block(node.body)
            except PyRaise as pr:
                self.handle(node, pr)
            else:
                self.exec_block(node.orelse)
        if not node.finalbody:
            return run()
        try:
            run()
        except (PyRaise, _Return, _Break, _Continue):
            self.exec_block(node.finalbody)     # an exception inside finally replaces the pending one
            raise
        self.exec_block(node.finalbody)
    Interp.x_Try = x_Try


_fix_try()


class SpecFn:
    def __init__(self, name, node, glob, file):
        self.name, self.node, self.glob, self.file = name, node, glob, file


BUILTIN_HANDLERS = {}


def builtin(obj):
    def deco(f):
        BUILTIN_HANDLERS[obj] = f
        return f
    return deco


from . import pybuiltins  # noqa: E402,F401  (registers handlers)
