"""PyVC symbolic executor: forward, single path per run, forks by re-execution.

`State.branch(cond)` decides which way a path goes; the driver (`verify.py`) re-runs
the function once per feasible decision vector.  Exceptions of the *analysed* program
are Python exceptions of this interpreter (`PyRaise`), so try/except/finally/with are
interpreted structurally.  See DESIGN.md section 2.
"""
import ast
import builtins as _builtins
import itertools
import z3
from . import vals as V
from .vals import Val, SeqVal


class Unsupported(Exception):
    """Construct outside the accepted subset: the function is UNDECIDED, never passed."""


_AC_KINDS = None


def stable_hash(e, memo=None):
    """structural hash that ignores the argument order of commutative operators (z3.simplify orders them by
    internal ids, which differ between processes)"""
    global _AC_KINDS
    import zlib
    if _AC_KINDS is None:
        _AC_KINDS = {z3.Z3_OP_AND, z3.Z3_OP_OR, z3.Z3_OP_ADD, z3.Z3_OP_MUL, z3.Z3_OP_EQ, z3.Z3_OP_DISTINCT, z3.Z3_OP_IFF}
    if memo is None:
        memo = {}
    i = e.get_id()
    if i in memo:
        return memo[i]
    if z3.is_quantifier(e):
        h = zlib.crc32(('Q%d|%d' % (e.num_vars(), stable_hash(e.body(), memo))).encode())
    elif z3.is_var(e):
        h = zlib.crc32(('V%d' % z3.get_var_index(e)).encode())
    elif z3.is_app(e):
        kids = [stable_hash(c, memo) for c in e.children()]
        d = e.decl()
        if d.kind() in _AC_KINDS:
            kids.sort()
        name = d.name() if e.num_args() else e.sexpr()
        h = zlib.crc32(('%s/%d|%s' % (name, d.kind(), ','.join(map(str, kids)))).encode())
    else:
        h = zlib.crc32(e.sexpr().encode())
    memo[i] = h
    return h


class ReplayMismatch(Exception):
    pass


class PathEnd(Exception):
    """Path is finished (infeasible, or cut at a loop invariant)."""


class PyRaise(Exception):
    def __init__(self, exc, origin=None):
        self.exc = exc            # Val term (o(ref))
        self.origin = origin      # label of the abstract callee that raised, if any


class _Return(Exception):
    def __init__(self, value):
        self.value = value


class _Break(Exception):
    pass


class _Continue(Exception):
    pass


class PyConst:
    """A live Python object of the analysed program (module, class, function, table)."""
    __slots__ = ('obj',)

    def __init__(self, obj):
        self.obj = obj

    def __repr__(self):
        return 'PyConst(%r)' % (self.obj,)


class SeqV:
    """A raw SMT sequence of Val (specification values; iteration snapshots)."""
    __slots__ = ('seq',)

    def __init__(self, seq):
        self.seq = seq


class Bound:
    """Bound method of a symbolic receiver."""
    __slots__ = ('recv', 'name')

    def __init__(self, recv, name):
        self.recv, self.name = recv, name


class Closure:
    def __init__(self, node, env, qual):
        self.node, self.env, self.qual = node, env, qual


class MapV:
    """A raw SMT array Val->Val (dict content) for specifications."""
    __slots__ = ('arr',)

    def __init__(self, arr):
        self.arr = arr


# ---------------------------------------------------------------------------

class Heap:
    def __init__(self, namer):
        self.arrs = {}
        self.havocs = []        # [(ref term, serial)] objects whose every attribute was havocked
        self.namer = namer
        self.ghost = {}         # ghost variables: name -> Val / Seq term
        self.on_new_array = None

    def copy(self):
        h = Heap(self.namer)
        h.arrs = dict(self.arrs)
        h.havocs = list(self.havocs)
        h.ghost = dict(self.ghost)
        h.on_new_array = self.on_new_array
        return h

    @staticmethod
    def sort_of(key):
        if key == 'cls':
            return z3.ArraySort(V.I, V.I)
        if key in ('list', 'dkeys'):
            return z3.ArraySort(V.I, SeqVal)
        if key == 'dmap':
            return z3.ArraySort(V.I, z3.ArraySort(Val, Val))
        return z3.ArraySort(V.I, Val)     # ('attr', n) / ('cattr', n)

    def get(self, key):
        if key in self.arrs:
            return self.arrs[key]
        name = key if isinstance(key, str) else '%s_%s' % key
        arr = z3.Const('H0_' + name, self.sort_of(key))
        if self.on_new_array is not None:
            self.on_new_array(key, arr)
        if isinstance(key, tuple) and key[0] == 'attr':
            for ref, serial in self.havocs:
                arr = z3.Store(arr, ref, z3.Const('hv%d_%s' % (serial, name), Val))
        self.arrs[key] = arr
        return arr

    def set(self, key, arr):
        self.arrs[key] = arr


def _has_quant(e, seen=None):
    seen = seen if seen is not None else set()
    if e.get_id() in seen:
        return False
    seen.add(e.get_id())
    if z3.is_quantifier(e):
        return True
    return any(_has_quant(c, seen) for c in e.children())


_TID_CACHE = {}


def _term_ids(e):
    """ids of the non-constant application subterms (selects, function applications) of e"""
    k = e.get_id()
    if k in _TID_CACHE:
        return _TID_CACHE[k]
    out = set()
    seen = set()
    stack = [e]
    while stack:
        x = stack.pop()
        i = x.get_id()
        if i in seen:
            continue
        seen.add(i)
        if z3.is_app(x):
            if x.num_args() == 0:
                # fresh constants (results of calls, havocked values) connect facts; the function's
                # parameters do not (they would pull in the whole path condition)
                if x.decl().kind() == z3.Z3_OP_UNINTERPRETED and '!' in x.decl().name():
                    out.add(i)
            else:
                kind = x.decl().kind()
                if kind in (z3.Z3_OP_SELECT, z3.Z3_OP_UNINTERPRETED):
                    out.add(i)
                stack.extend(x.children())
        elif z3.is_quantifier(x):
            stack.append(x.body())
    fs = frozenset(out)
    if len(_TID_CACHE) > 200000:
        _TID_CACHE.clear()
    _TID_CACHE[k] = fs
    return fs


def _const_ids(e):
    out = set()
    seen = set()
    stack = [e]
    while stack:
        x = stack.pop()
        if x.get_id() in seen:
            continue
        seen.add(x.get_id())
        if z3.is_app(x):
            if x.num_args() == 0 and x.decl().kind() == z3.Z3_OP_UNINTERPRETED:
                out.add(x.get_id())
            stack.extend(x.children())
    return out


class Obligation:
    def __init__(self, fn, clause, kind, pc, goal, path, where=''):
        self.fn, self.clause, self.kind = fn, clause, kind
        self.pc, self.goal, self.path, self.where = pc, goal, path, where
        self.verdict = None
        self.detail = None


class State:
    def __init__(self, decisions=(), feas_timeout_ms=1000):
        self.decisions = list(decisions)
        self.pos = 0
        self.pending = []
        self.pc = []
        self.env = {}
        self._n = 0
        self.heap = Heap(self.fresh_name)
        self.alloc = z3.Int('alloc0')
        self.alloc0 = self.alloc
        self.obligations = []
        self.assumptions = set()
        self.trusted = set()
        self.feas_timeout_ms = feas_timeout_ms
        self.sym_classes = []         # symbolic class-id terms (for subclass axioms)
        self.axioms = []              # global axioms (ground facts, lemma instances)
        self.ghost = {}
        self.notes = []
        self.solver_calls = 0
        self._h0_seen = set()
        self.heap.on_new_array = self._initial_heap_axiom

    def _initial_heap_axiom(self, key, arr):
        """every reference stored in an object of the initial heap points to an object that already exists; slots of
        not yet allocated references are unconstrained (a callee may hand back a new object holding new objects)"""
        name = str(arr)
        if name in self._h0_seen:
            return
        self._h0_seen.add(name)
        r = z3.Int('h0_r')
        a0 = self.alloc0
        if key in ('cls', 'dkeys'):
            return
        if key == 'list':
            k = z3.Int('h0_k')
            e = z3.Select(arr, r)[k]
            self.axioms.append(z3.ForAll([r, k], z3.Implies(z3.And(r < a0, k >= 0, k < z3.Length(z3.Select(arr, r)), Val.is_o(e)),
                                                            z3.And(Val.ref(e) < a0, Val.ref(e) >= 0)), patterns=[e]))
        elif key == 'dmap':
            kk = z3.Const('h0_key', Val)
            e = z3.Select(z3.Select(arr, r), kk)
            self.axioms.append(z3.ForAll([r, kk], z3.Implies(z3.And(r < a0, Val.is_o(e)), z3.And(Val.ref(e) < a0, Val.ref(e) >= 0)),
                                         patterns=[e]))
        else:
            e = z3.Select(arr, r)
            self.axioms.append(z3.ForAll([r], z3.Implies(z3.And(r < a0, Val.is_o(e)), z3.And(Val.ref(e) < a0, Val.ref(e) >= 0)),
                                         patterns=[e]))

    # -- naming ------------------------------------------------------------
    def fresh_name(self, base):
        self._n += 1
        return '%s!%d' % (base, self._n)

    def fresh(self, base='v', sort=Val):
        return z3.Const(self.fresh_name(base), sort)

    # -- path condition ------------------------------------------------------
    def assume(self, cond):
        cond = z3.simplify(cond)
        if z3.is_true(cond):
            return
        if z3.is_and(cond):
            for c in cond.children():
                self.assume(c)
            return
        self.pc.append(cond)

    def all_axioms(self):
        return self.axioms + class_axioms(self)

    def feasible(self, extra):
        """over-approximate feasibility: only the quantifier-free pc conjuncts that share a
        non-constant subterm (transitively) with `extra`; unknown = feasible"""
        if not hasattr(self, '_qf'):
            self._qf = []          # [(conjunct, frozenset(term ids))]
            self._qf_n = 0
        while self._qf_n < len(self.pc):
            c = self.pc[self._qf_n]
            if not _has_quant(c):
                self._qf.append((c, _term_ids(c)))
            self._qf_n += 1
        want = set(_term_ids(extra))
        if not want:
            want = set(_const_ids(extra))
        # facts over the parameters alone (allocation bounds, tags) are few and always relevant
        chosen = [c for c, ids in self._qf if not ids]
        rest = [(c, ids) for c, ids in self._qf if ids]
        changed = True
        while changed:
            changed = False
            keep = []
            for c, ids in rest:
                if ids & want:
                    chosen.append(c)
                    want |= ids
                    changed = True
                else:
                    keep.append((c, ids))
            rest = keep
        s = z3.Solver()
        s.set('timeout', self.feas_timeout_ms)
        for a in self.all_axioms():
            if not _has_quant(a):
                s.add(a)
        s.add(chosen)
        s.add(extra)
        self.solver_calls += 1
        import time as _t
        t0 = _t.time()
        r = s.check()
        self.feas_time = getattr(self, 'feas_time', 0.0) + _t.time() - t0
        if r == z3.unknown:
            self.feas_unknown = getattr(self, 'feas_unknown', 0) + 1
            import os as _os
            if _os.environ.get('PYVC_TRACE_FEAS'):
                print('   feasibility unknown after %.2fs with %d conjuncts: %s' % (_t.time() - t0, len(chosen), str(extra)[:120].replace('\n', ' ')), flush=True)
        self._model = None
        return r != z3.unsat

    # -- cheap syntactic knowledge --------------------------------------------------------
    def _learn(self):
        """facts from pc conjuncts: truth of atoms, constructor tags, numeral equalities"""
        if not hasattr(self, '_decided'):
            self._decided = {}
            self._tags = {}
            self._nums = {}
            self._facts_n = 0
        while self._facts_n < len(self.pc):
            c = self.pc[self._facts_n]
            self._facts_n += 1
            self._learn_one(c, True)

    def _learn_one(self, c, val):
        if z3.is_not(c):
            return self._learn_one(c.arg(0), not val)
        if val and z3.is_and(c):
            for x in c.children():
                self._learn_one(x, True)
            return
        if (not val) and z3.is_or(c):
            for x in c.children():
                self._learn_one(x, False)
            return
        self._decided.setdefault(c.get_id(), val)
        if val and z3.is_app(c):
            k = c.decl().kind()
            if k == z3.Z3_OP_DT_IS:
                self._tags[c.arg(0).get_id()] = c.decl().params()[0].name() if c.decl().params() else str(c.decl())
            elif k == z3.Z3_OP_EQ:
                l, r = c.arg(0), c.arg(1)
                if z3.is_int_value(r):
                    self._nums[l.get_id()] = r.as_long()
                elif z3.is_int_value(l):
                    self._nums[r.get_id()] = l.as_long()
                elif z3.is_app(r) and r.num_args() == 0 and r.sort() == Val and r.decl().kind() == z3.Z3_OP_DT_CONSTRUCTOR:
                    self._tags[l.get_id()] = r.decl().name()
                elif z3.is_app(l) and l.num_args() == 0 and l.sort() == Val and l.decl().kind() == z3.Z3_OP_DT_CONSTRUCTOR:
                    self._tags[r.get_id()] = l.decl().name()

    def known(self, cond):
        """True / False / None from syntactic facts only"""
        k = cond.get_id()
        if k in self._decided:
            return self._decided[k]
        if z3.is_not(cond):
            v = self.known(cond.arg(0))
            return None if v is None else (not v)
        if z3.is_and(cond):
            vs = [self.known(x) for x in cond.children()]
            if any(v is False for v in vs):
                return False
            if all(v is True for v in vs):
                return True
            return None
        if z3.is_or(cond):
            vs = [self.known(x) for x in cond.children()]
            if any(v is True for v in vs):
                return True
            if all(v is False for v in vs):
                return False
            return None
        if z3.is_app(cond):
            kind = cond.decl().kind()
            if kind == z3.Z3_OP_DT_IS:
                t = self._tags.get(cond.arg(0).get_id())
                if t is not None:
                    want = cond.decl().params()[0].name() if cond.decl().params() else None
                    if want is not None:
                        return t == want
            elif kind == z3.Z3_OP_EQ:
                l, r = cond.arg(0), cond.arg(1)
                for x, y in ((l, r), (r, l)):
                    if z3.is_int_value(y) and x.get_id() in self._nums:
                        return self._nums[x.get_id()] == y.as_long()
                    if z3.is_app(y) and y.num_args() == 0 and y.sort() == Val and \
                            y.decl().kind() == z3.Z3_OP_DT_CONSTRUCTOR and x.get_id() in self._tags:
                        return self._tags[x.get_id()] == y.decl().name()
        return None

    def _note_class_terms(self, e):
        """class-valued terms that occur in subclass(...) tests get the lattice facts instantiated for them"""
        seen = set()
        stack = [e]
        while stack:
            x = stack.pop()
            if x.get_id() in seen or not z3.is_app(x):
                continue
            seen.add(x.get_id())
            if x.decl().name() == 'subclass' and x.num_args() == 2 and not z3.is_int_value(x.arg(0)):
                t = x.arg(0)
                if not any(t.eq(k) for k in self.sym_classes):
                    self.sym_classes.append(t)
            stack.extend(x.children())

    def branch(self, cond):
        """Python bool for this path; records the alternative for the driver."""
        if isinstance(cond, bool):
            return cond
        cond = z3.simplify(cond)
        if z3.is_app(cond) and 'subclass' in str(cond.decl()) or (not z3.is_true(cond) and not z3.is_false(cond) and 'subclass(' in cond.sexpr()):
            self._note_class_terms(cond)
        if z3.is_true(cond):
            return True
        if z3.is_false(cond):
            return False
        self._learn()
        kn = self.known(cond)
        if kn is not None:
            return kn
        d = self._branch(cond)
        return d

    def _model_says(self, cond):
        """truth of cond under the last model of the (quantifier-free) pc, if still valid"""
        m = getattr(self, '_model', None)
        if m is None:
            return None
        n0 = getattr(self, '_model_n', 0)
        try:
            for c in self.pc[n0:]:
                if _has_quant(c):
                    continue
                if not z3.is_true(m.eval(c, model_completion=True)):
                    self._model = None
                    return None
            self._model_n = len(self.pc)
            v = m.eval(cond, model_completion=True)
        except z3.Z3Exception:
            self._model = None
            return None
        if z3.is_true(v):
            return True
        if z3.is_false(v):
            return False
        return None

    def _branch(self, cond):
        """decisions are (taken side, structural hash of the condition): a prefix handed to another process is
        replayed without feasibility checks, and must meet the same conditions in the same order"""
        h = stable_hash(cond)
        if self.pos < len(self.decisions):
            rec = self.decisions[self.pos]
            d, h0 = rec if isinstance(rec, tuple) else (rec, None)
            if h0 is not None and h0 != h:
                raise ReplayMismatch('decision %d was recorded for another condition (non-deterministic replay): %s'
                                     % (self.pos, str(cond)[:200].replace('\n', ' ')))
            self.decisions[self.pos] = (d, h)
        else:
            ms = None
            can_t = True if ms is True else self.feasible(cond)
            can_f = True if ms is False else self.feasible(z3.Not(cond))
            if can_t and can_f:
                d = True
                self.pending.append(self.decisions[:self.pos] + [(False, h)])
            elif can_t:
                d = True
            elif can_f:
                d = False
            else:
                raise PathEnd('infeasible')
            self.decisions.append((d, h))
        self.pos += 1
        self.pc.append(cond if d else z3.simplify(z3.Not(cond)))
        return d

    def oblige(self, fn, clause, kind, goal, where=''):
        goal = z3.simplify(goal)
        self.obligations.append(Obligation(fn, clause, kind, list(self.pc), goal,
                                           tuple(bool(x[0] if isinstance(x, tuple) else x) for x in self.decisions[:self.pos]), where))

    # -- reading through stores -------------------------------------------------------------
    def alias(self, a, b):
        """True: a == b on this path; False: a != b; None: unknown.  Uses a resource limit, not a
        wall-clock timeout, so that re-executing a path prefix builds the same terms."""
        e = z3.simplify(a == b)
        if z3.is_true(e):
            return True
        if z3.is_false(e):
            return False
        if not hasattr(self, '_alias'):
            self._alias = {}
        k = e.get_id()
        if k in self._alias:
            return self._alias[k]
        self._learn()
        kn = self.known(e)
        if kn is None:
            kn = self._decide(e)
        self._alias[k] = kn
        self._alias_keep = getattr(self, '_alias_keep', [])
        self._alias_keep.append(e)
        return kn

    def _decide(self, e):
        if not hasattr(self, '_qf'):
            self._qf = []
            self._qf_n = 0
        while self._qf_n < len(self.pc):
            c = self.pc[self._qf_n]
            if not _has_quant(c):
                self._qf.append((c, _term_ids(c)))
            self._qf_n += 1
        want = set(_term_ids(e))
        chosen = [c for c, ids in self._qf if not ids]
        rest = [(c, ids) for c, ids in self._qf if ids]
        changed = True
        while changed:
            changed = False
            keep = []
            for c, ids in rest:
                if ids & want:
                    chosen.append(c)
                    want |= ids
                    changed = True
                else:
                    keep.append((c, ids))
            rest = keep
        out = None
        for val, f in ((True, z3.Not(e)), (False, e)):
            s = z3.Solver()
            s.set('rlimit', 400000)
            for a in self.all_axioms():
                if not _has_quant(a):
                    s.add(a)
            s.add(chosen)
            s.add(f)
            self.solver_calls += 1
            if s.check() == z3.unsat:
                out = val
                break
        return out

    def sel(self, arr, idx):
        """Select(arr, idx) with the store chain resolved wherever aliasing is decided"""
        while z3.is_app(arr) and arr.decl().kind() == z3.Z3_OP_STORE:
            a, j, v = arr.arg(0), arr.arg(1), arr.arg(2)
            r = self.alias(idx, j)
            if r is True:
                return v
            if r is False:
                arr = a
                continue
            break
        return z3.Select(arr, idx)

    # -- heap primitives ---------------------------------------------------------
    def new_ref(self):
        r = self.alloc
        self.alloc = z3.simplify(self.alloc + 1)
        return r

    def cls_of(self, ref):
        return self.sel(self.heap.get('cls'), ref)

    def set_cls(self, ref, cid):
        self.heap.set('cls', z3.Store(self.heap.get('cls'), ref, cid))

    def alloc_obj(self, pycls):
        r = self.new_ref()
        self.set_cls(r, z3.IntVal(V.cid_of(pycls)))
        return r

    def new_list(self, seq):
        r = self.alloc_obj(list)
        self.heap.set('list', z3.Store(self.heap.get('list'), r, seq))
        return Val.o(r)

    def new_set(self, seq):
        r = self.alloc_obj(set)
        self.heap.set('list', z3.Store(self.heap.get('list'), r, seq))
        return Val.o(r)

    def new_dict(self, keys=None, amap=None):
        r = self.alloc_obj(dict)
        if keys is None:
            keys = z3.Empty(SeqVal)
        if amap is None:
            amap = z3.K(Val, V.ABSENT)
        self.heap.set('dkeys', z3.Store(self.heap.get('dkeys'), r, keys))
        self.heap.set('dmap', z3.Store(self.heap.get('dmap'), r, amap))
        return Val.o(r)

    def items(self, ref, heap=None):
        return self.sel((heap or self.heap).get('list'), ref)

    def set_items(self, ref, seq):
        self.heap.set('list', z3.Store(self.heap.get('list'), ref, seq))

    def dkeys(self, ref, heap=None):
        return self.sel((heap or self.heap).get('dkeys'), ref)

    def dmap(self, ref, heap=None):
        return self.sel((heap or self.heap).get('dmap'), ref)

    def set_dict(self, ref, keys, amap):
        self.heap.set('dkeys', z3.Store(self.heap.get('dkeys'), ref, keys))
        self.heap.set('dmap', z3.Store(self.heap.get('dmap'), ref, amap))

    def raw_attr(self, ref, name, heap=None):
        return self.sel((heap or self.heap).get(('attr', name)), ref)

    def class_attr(self, cid, name, heap=None):
        return z3.Select((heap or self.heap).get(('cattr', name)), cid)

    def get_attr(self, ref, name, heap=None):
        """instance dict first, then the class (A-attr)."""
        own = self.raw_attr(ref, name, heap)
        return z3.If(own != V.ABSENT, own, self.class_attr(self.cls_of(ref) if heap is None else
                                                           z3.Select(heap.get('cls'), ref), name, heap))

    def set_attr(self, ref, name, value):
        k = ('attr', name)
        self.heap.set(k, z3.Store(self.heap.get(k), ref, value))

    def note_ref(self, v):
        """every object reference read from the heap is already allocated"""
        self.pc.append(z3.Implies(Val.is_o(v), Val.ref(v) < self.alloc))


# ---------------------------------------------------------------------------
# class lattice axioms

_CLASS_FACT_CACHE = {}


def registered_classes():
    return [(cid, obj) for cid, obj in enumerate(V.CONSTS) if isinstance(obj, type)]


def class_axioms(st):
    key = len(V.CONSTS)
    if key not in _CLASS_FACT_CACHE:
        facts = []
        cl = registered_classes()
        for (ia, a) in cl:
            for (ib, b) in cl:
                f = V.subclass(z3.IntVal(ia), z3.IntVal(ib))
                facts.append(f if issubclass(a, b) else z3.Not(f))
        _CLASS_FACT_CACHE.clear()
        _CLASS_FACT_CACHE[key] = (facts, cl)
    facts, cl = _CLASS_FACT_CACHE[key]
    out = list(facts)
    for k in st.sym_classes:
        for (ia, a) in cl:
            for (ib, b) in cl:
                if ia != ib and issubclass(a, b):
                    out.append(z3.Implies(V.subclass(k, z3.IntVal(ia)), V.subclass(k, z3.IntVal(ib))))
                elif ia != ib and not issubclass(b, a) and _disjoint(a, b):
                    out.append(z3.Not(z3.And(V.subclass(k, z3.IntVal(ia)), V.subclass(k, z3.IntVal(ib)))))
            out.append(z3.Implies(k == z3.IntVal(ia), V.subclass(k, z3.IntVal(ia))))
    return out


def _disjoint(a, b):
    """two classes that cannot share a subclass (layout conflict) - only used for the
    builtin exception families that the properties name; conservative otherwise."""
    fam = (SystemExit, KeyboardInterrupt, GeneratorExit, Exception)
    return a in fam and b in fam and a is not b


# ---------------------------------------------------------------------------
# pure helpers over Val terms

def is_numeric(v):
    return z3.Or(Val.is_i(v), Val.is_f(v), Val.is_b(v))


def num_real(v):
    return z3.If(Val.is_i(v), z3.ToReal(Val.iv(v)),
                 z3.If(Val.is_b(v), z3.If(Val.bv(v), z3.RealVal(1), z3.RealVal(0)), Val.fv(v)))


def num_int(v):
    return z3.If(Val.is_b(v), z3.If(Val.bv(v), z3.IntVal(1), z3.IntVal(0)), Val.iv(v))


def is_intlike(v):
    return z3.Or(Val.is_i(v), Val.is_b(v))


STR_LOWER = V.uf('str_lower', V.S, V.S)
STR_UPPER = V.uf('str_upper', V.S, V.S)
STR_STRIP = V.uf('str_strip', V.S, V.S)
STR_RSTRIP = V.uf('str_rstrip', V.S, V.S)
STR_OF = V.uf('py_str', Val, V.S)            # str(x) for non-string x
REPR_OF = V.uf('py_repr', Val, V.S)
OBJ_EQ = V.uf('py_obj_eq', Val, Val, V.B)
ROUND2 = V.uf('round_nd', V.R, V.I, V.R)
