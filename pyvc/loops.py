"""Loops: cut at the sidecar invariant (no unrolling, no bound); constant iterables are
unrolled exactly (DESIGN.md section 2.6)."""
import ast
import z3
from . import vals as V
from .vals import Val
from .engine import Unsupported, PathEnd, PyRaise, _Return, _Break, _Continue, PyConst, SeqV
from .interp import IterV


def assigned_names(stmts):
    out = set()
    for s in stmts:
        for n in ast.walk(s):
            if isinstance(n, ast.Name) and isinstance(n.ctx, (ast.Store, ast.Del)):
                out.add(n.id)
            elif isinstance(n, ast.ExceptHandler) and n.name:
                out.add(n.name)
            elif isinstance(n, (ast.FunctionDef, ast.ClassDef)):
                out.add(n.name)
    return out


def loop_ordinal(it, node):
    fn = it.fn
    if fn is None or id(node) not in fn.loop_ids:
        raise Unsupported('loop outside a verified function')
    return fn.loop_ids[id(node)]


def _invariants(it, n):
    c = it.fn.contract
    return [i for i in (c.invariants if c else []) if i.loop == n]


def _check_inv(it, invs, specials, kind, n):
    from .contracts import eval_clause
    for inv in invs:
        goal = eval_clause(it, inv.node, specials)
        it.st.oblige(it.fn.qual, 'loop%d.%s.%s' % (n, inv.name, kind), kind, goal,
                     where='line %s' % getattr(inv.node, 'lineno', '?'))


def _assume_inv(it, invs, specials):
    from .contracts import eval_clause
    for inv in invs:
        it.st.assume(eval_clause(it, inv.node, specials))


def exec_for(it, node):
    st = it.st
    if isinstance(node.iter, (ast.Tuple, ast.List)) and not any(isinstance(e, ast.Starred) for e in node.iter.elts):
        # `for x in (a, b, c)`: a display of known length is unrolled exactly
        iterv = [it.ev(e) for e in node.iter.elts]
    else:
        src = it.ev(node.iter)
        iterv = it.iterable(src)
    if isinstance(iterv, list):
        broke = False
        for e in iterv:
            it.bind_target(node.target, e)
            try:
                it.exec_block(node.body)
            except _Continue:
                continue
            except _Break:
                broke = True
                break
        if not broke:
            it.exec_block(node.orelse)
        return
    n = loop_ordinal(it, node)
    invs = _invariants(it, n)
    if not invs:
        raise Unsupported('loop %d of %s (line %d) has no invariant' % (n, it.fn.qual, node.lineno))
    from .contracts import eval_locs, havoc_locs, frame_obligations
    length = iterv.length
    entry_heap = st.heap.copy()
    entry_env = dict(it.env)
    iterated = iterv
    base = {'iterated': iterated, '__loop_entry__': (entry_heap, entry_env)}
    # 1. invariant holds on entry
    _check_inv(it, invs, dict(base, seen=V.mk_int(0)), 'init', n)
    # 2. havoc what the loop may change
    locs = []
    for inv in invs:
        locs += eval_locs(it, inv.modifies, heap=entry_heap, env=entry_env)
    for name in assigned_names(node.body) | assigned_names([node.target]):
        it.env[name] = st.fresh('lv_' + name)
    havoc_locs(it, locs)
    k = st.fresh('seen', V.I)
    st.assume(z3.And(k >= 0, k <= length))
    # objects created by earlier iterations exist
    a2 = st.fresh('alloc', V.I)
    st.assume(a2 >= st.alloc)
    st.alloc = a2
    for name in assigned_names(node.body) | assigned_names([node.target]):
        v = it.env[name]
        st.assume(z3.Implies(Val.is_o(v), Val.ref(v) < st.alloc))
    _assume_inv(it, invs, dict(base, seen=Val.i(k)))
    # 3. one more iteration, or leave
    if st.branch(k < length):
        before = st.heap.copy()
        alloc_before = st.alloc
        x = iterv.at(k)
        if V.is_val(x):
            st.note_ref(x)
            st.assume(x != V.ABSENT)
        if getattr(iterv, 'dict_ref', None) is not None:
            # representation invariant of dictionaries: every key of the key sequence is mapped
            st.assume(z3.Select(st.sel(entry_heap.get('dmap'), iterv.dict_ref), x) != V.ABSENT)
        it.bind_target(node.target, x)
        try:
            it.exec_block(node.body)
        except _Continue:
            pass
        except _Break:
            return
        _check_inv(it, invs, dict(base, seen=Val.i(k + 1)), 'step', n)
        frame_obligations(it, before, st.heap, locs, alloc_before, 'loop%d.frame' % n)
        raise PathEnd('loop cut at invariant')
    it.exec_block(node.orelse)


def exec_while(it, node):
    st = it.st
    n = loop_ordinal(it, node)
    invs = _invariants(it, n)
    if not invs:
        raise Unsupported('while loop %d of %s (line %d) has no invariant' % (n, it.fn.qual, node.lineno))
    from .contracts import eval_locs, havoc_locs, frame_obligations
    entry_heap = st.heap.copy()
    entry_env = dict(it.env)
    base = {'__loop_entry__': (entry_heap, entry_env)}
    _check_inv(it, invs, dict(base), 'init', n)
    locs = []
    for inv in invs:
        locs += eval_locs(it, inv.modifies, heap=entry_heap, env=entry_env)
    for name in assigned_names(node.body):
        it.env[name] = st.fresh('lv_' + name)
    havoc_locs(it, locs)
    a2 = st.fresh('alloc', V.I)
    st.assume(a2 >= st.alloc)
    st.alloc = a2
    _assume_inv(it, invs, dict(base))
    if it.test(it.ev(node.test)):
        before = st.heap.copy()
        alloc_before = st.alloc
        try:
            it.exec_block(node.body)
        except _Continue:
            pass
        except _Break:
            return
        _check_inv(it, invs, dict(base), 'step', n)
        frame_obligations(it, before, st.heap, locs, alloc_before, 'loop%d.frame' % n)
        raise PathEnd('loop cut at invariant')
    it.exec_block(node.orelse)
