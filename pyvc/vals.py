"""PyVC value model: one SMT sort `Val` for every Python value (DESIGN.md section 2.3).

Heap objects (lists, dicts, sets, instances, exceptions) are `o(ref)`; their contents
live in the explicit heap kept by `engine.State`.  Classes, functions and other
opaque live objects are `c(cid)` where `cid` indexes `CONSTS`.
"""
import z3
from fractions import Fraction

_V = z3.Datatype('Val')
_VS = z3.DatatypeSort('Val')
_V.declare('none')
_V.declare('absent')          # missing attribute / missing dict slot (never a Python value)
_V.declare('notimpl')         # the NotImplemented singleton
_V.declare('b', ('bv', z3.BoolSort()))
_V.declare('i', ('iv', z3.IntSort()))
_V.declare('f', ('fv', z3.RealSort()))
_V.declare('s', ('sv', z3.StringSort()))
_V.declare('t', ('tv', z3.SeqSort(_VS)))
_V.declare('o', ('ref', z3.IntSort()))
_V.declare('c', ('cid', z3.IntSort()))
Val = _V.create()
SeqVal = z3.SeqSort(Val)
I = z3.IntSort()
B = z3.BoolSort()
R = z3.RealSort()
S = z3.StringSort()

NONE = Val.none
ABSENT = Val.absent
NOTIMPL = Val.notimpl


def is_val(x):
    return isinstance(x, z3.ExprRef) and x.sort() == Val


def mk_int(n):
    return Val.i(z3.IntVal(n))


def mk_bool(b):
    if isinstance(b, bool):
        return Val.b(z3.BoolVal(b))
    return Val.b(b)


def mk_str(s):
    if isinstance(s, str):
        return Val.s(z3.StringVal(s))
    return Val.s(s)


def mk_float(x):
    if isinstance(x, (float, int)):
        fr = Fraction(x).limit_denominator(10 ** 12) if isinstance(x, float) else Fraction(x)
        # exact decimal literals such as .7 are meant as their decimal reading
        if isinstance(x, float):
            fr = Fraction(repr(x)) if 'e' not in repr(x) and 'inf' not in repr(x) and 'nan' not in repr(x) else Fraction(x)
        return Val.f(z3.RealVal(str(fr)))
    return Val.f(x)


def mk_tuple(items):
    if isinstance(items, (list, tuple)):
        if not items:
            return Val.t(z3.Empty(SeqVal))
        if len(items) == 1:
            return Val.t(z3.Unit(items[0]))
        return Val.t(z3.Concat(*[z3.Unit(x) for x in items]))
    return Val.t(items)


def seq_of(items):
    if not items:
        return z3.Empty(SeqVal)
    if len(items) == 1:
        return z3.Unit(items[0])
    return z3.Concat(*[z3.Unit(x) for x in items])


# ---------------------------------------------------------------------------
# registry of opaque live objects (classes, functions, modules) -> cid

CONSTS = []          # cid -> python object
_CONST_IDS = {}      # id(obj) -> cid


def cid_of(obj):
    k = id(obj)
    if k not in _CONST_IDS:
        _CONST_IDS[k] = len(CONSTS)
        CONSTS.append(obj)
    return _CONST_IDS[k]


def mk_const(obj):
    return Val.c(z3.IntVal(cid_of(obj)))


# builtin container classes get fixed class ids via the same registry
LIST_CID = cid_of(list)
DICT_CID = cid_of(dict)
SET_CID = cid_of(set)

# uninterpreted symbols shared by the whole engine -----------------------------
subclass = z3.Function('subclass', I, I, B)          # subclass(cid_a, cid_b): a is b or derives from it


_UF = {}


def uf(name, *sorts):
    key = (name,) + tuple(str(s) for s in sorts)
    if key not in _UF:
        _UF[key] = z3.Function(name, *sorts)
    return _UF[key]


def tagname(v):
    """Static tag of a Val term when it is syntactically a constructor application."""
    v = z3.simplify(v) if is_val(v) else v
    if is_val(v) and z3.is_app(v):
        d = v.decl().name()
        if d in ('none', 'absent', 'notimpl', 'b', 'i', 'f', 's', 't', 'o', 'c'):
            return d
    return None
