"""Engine semantics of the Python builtins the verified functions use (trusted base,
Appendix B of DESIGN.md).  Each handler: (interp, args, kwargs, node) -> value."""
import z3
from . import vals as V
from .vals import Val, SeqVal
from .engine import (Unsupported, PyConst, SeqV, MapV, Bound, Closure, is_numeric, num_real, num_int,
                     is_intlike, ROUND2, STR_OF)
from .interp import builtin, IterV, lit, simple_literal


@builtin(len)
def b_len(it, args, kwargs, node):
    v = args[0]
    if isinstance(v, PyConst):
        return V.mk_int(len(v.obj))
    if isinstance(v, SeqV):
        return Val.i(z3.Length(v.seq))
    if isinstance(v, IterV):
        return Val.i(v.length)
    v = it.to_val(v)
    st = it.st
    ref = Val.ref(v)
    cls = it.st.sel(it.heap.get('cls'), ref)
    n_obj = z3.If(cls == V.DICT_CID, z3.Length(it.st.sel(it.heap.get('dkeys'), ref)),
                  z3.Length(it.st.sel(it.heap.get('list'), ref)))
    term = Val.i(z3.If(Val.is_s(v), z3.Length(Val.sv(v)), z3.If(Val.is_t(v), z3.Length(Val.tv(v)), n_obj)))
    if it.pure:
        return term
    ok = z3.Or(Val.is_s(v), Val.is_t(v),
               z3.And(Val.is_o(v), z3.Or(cls == V.LIST_CID, cls == V.DICT_CID, cls == V.SET_CID)))
    if not st.branch(ok):
        if st.branch(Val.is_o(v)):
            c = it.reg.method_contract(it, v, '__len__', node)
            if c is not None:
                return it.call_contract(c, [v], {})
            raise Unsupported('len() of an instance without a __len__ contract')
        it.raise_(TypeError, 'object has no len()')
    return term


@builtin(bool)
def b_bool(it, args, kwargs, node):
    if not args:
        return V.mk_bool(False)
    return Val.b(it.truth(args[0]))


def _class_list(it, c):
    if isinstance(c, PyConst):
        if isinstance(c.obj, type):
            return [c.obj]
        if isinstance(c.obj, tuple) and all(isinstance(x, type) for x in c.obj):
            return list(c.obj)
    if V.is_val(c) and V.tagname(c) == 't':
        # tuple display of class constants
        s = z3.simplify(Val.tv(c))
        out = []
        n = z3.simplify(z3.Length(s))
        if z3.is_int_value(n):
            for i in range(n.as_long()):
                e = z3.simplify(s[i])
                if V.tagname(e) == 'c' and z3.is_int_value(z3.simplify(Val.cid(e))):
                    out.append(V.CONSTS[z3.simplify(Val.cid(e)).as_long()])
                else:
                    raise Unsupported('isinstance with a symbolic class')
            return out
    if V.is_val(c) and V.tagname(c) == 'c':
        k = z3.simplify(Val.cid(c))
        if z3.is_int_value(k):
            return [V.CONSTS[k.as_long()]]
    raise Unsupported('isinstance with a symbolic class')


def instance_test(it, v, pycls):
    """z3 Bool: isinstance(v, pycls) under the value model"""
    v = it.to_val(v)
    cls = it.st.sel(it.heap.get('cls'), Val.ref(v))
    alts = []
    if pycls is object:
        return z3.BoolVal(True)
    if pycls is int:
        alts.append(z3.Or(Val.is_i(v), Val.is_b(v)))
    if pycls is bool:
        alts.append(Val.is_b(v))
    if pycls is float:
        alts.append(Val.is_f(v))
    if pycls is str:
        alts.append(Val.is_s(v))
    if pycls is tuple:
        alts.append(Val.is_t(v))
    if pycls is type(None):
        alts.append(Val.is_none(v))
    if pycls in (list, dict, set):
        alts.append(z3.And(Val.is_o(v), cls == V.cid_of(pycls)))
    if not alts or pycls not in (int, bool, float, str, tuple, type(None), list, dict, set):
        alts.append(z3.And(Val.is_o(v), V.subclass(cls, z3.IntVal(V.cid_of(pycls)))))
    return z3.Or(*alts)


@builtin(isinstance)
def b_isinstance(it, args, kwargs, node):
    classes = _class_list(it, args[1])
    return Val.b(z3.Or(*[instance_test(it, args[0], c) for c in classes]))


@builtin(str)
def b_str(it, args, kwargs, node):
    if not args:
        return V.mk_str('')
    v = it.to_val(args[0])
    if not it.pure:
        st = it.st
        if st.branch(Val.is_o(v)):
            c = it.reg.method_contract(it, v, '__str__', node)
            if c is not None:
                return it.call_contract(c, [v], {})
            it.st.assumptions.add('A-str: str() of a heap object without a __str__ contract is a total uninterpreted function')
    return Val.s(it.str_term(v))


@builtin(repr)
def b_repr(it, args, kwargs, node):
    return Val.s(it.repr_term(it.to_val(args[0])))


@builtin(int)
def b_int(it, args, kwargs, node):
    v = it.to_val(args[0])
    if it.pure or it.st.branch(is_intlike(v)):
        return Val.i(num_int(v))
    if it.st.branch(Val.is_f(v)):
        x = Val.fv(v)
        return Val.i(z3.If(x >= 0, z3.ToInt(x), -z3.ToInt(-x)))
    raise Unsupported('int() of a non-number')


@builtin(float)
def b_float(it, args, kwargs, node):
    v = it.to_val(args[0])
    if it.pure or it.st.branch(is_numeric(v)):
        return Val.f(num_real(v))
    if it.st.branch(Val.is_s(v)):
        c = it.reg.named_contract('float(str)')
        if c is not None:
            return it.call_contract(c, [v], {})
    raise Unsupported('float() of a non-number')


@builtin(round)
def b_round(it, args, kwargs, node):
    v = it.to_val(args[0])
    if len(args) == 1:
        raise Unsupported('round(x) to int')
    nd = it.to_val(args[1])
    it.st.assumptions.add('A-float: round(x, n) is the uninterpreted function round_nd; floats are exact reals')
    if not it.pure and not it.st.branch(is_numeric(v)):
        it.raise_(TypeError, 'round')
    return z3.If(is_intlike(v), Val.i(num_int(v)), Val.f(ROUND2(num_real(v), num_int(nd))))


@builtin(tuple)
def b_tuple(it, args, kwargs, node):
    if not args:
        return V.mk_tuple([])
    return Val.t(it.seq_of_value(args[0]))


@builtin(list)
def b_list(it, args, kwargs, node):
    if not args:
        return it.st.new_list(z3.Empty(SeqVal))
    a = args[0]
    if isinstance(a, IterV):
        raise Unsupported('list() of an iterator view')
    if isinstance(a, PyConst) and isinstance(a.obj, (str, list, tuple)):
        return it.st.new_list(V.seq_of([lit(e) for e in a.obj]))
    return it.st.new_list(it.seq_of_value(a))


@builtin(dict)
def b_dict(it, args, kwargs, node):
    if args or kwargs:
        raise Unsupported('dict() with arguments')
    return it.st.new_dict()


@builtin(set)
def b_set(it, args, kwargs, node):
    if args:
        raise Unsupported('set() with arguments')
    return it.st.new_set(z3.Empty(SeqVal))


@builtin(type)
def b_type(it, args, kwargs, node):
    if len(args) != 1:
        raise Unsupported('type() with 3 arguments')
    v = it.to_val(args[0])
    st = it.st
    cls = it.st.sel(it.heap.get('cls'), Val.ref(v))
    return z3.If(Val.is_o(v), Val.c(cls),
                 z3.If(Val.is_i(v), V.mk_const(int), z3.If(Val.is_s(v), V.mk_const(str),
                       z3.If(Val.is_b(v), V.mk_const(bool), z3.If(Val.is_f(v), V.mk_const(float),
                             z3.If(Val.is_t(v), V.mk_const(tuple), z3.If(Val.is_none(v), V.mk_const(type(None)),
                                   V.mk_const(type))))))))


@builtin(callable)
def b_callable(it, args, kwargs, node):
    v = args[0]
    if isinstance(v, (Closure, Bound)):
        return V.mk_bool(True)
    if isinstance(v, PyConst):
        return V.mk_bool(callable(v.obj))
    v = it.to_val(v)
    f = V.uf('py_callable', Val, V.B)
    cls = it.st.sel(it.heap.get('cls'), Val.ref(v))
    builtin_container = z3.And(Val.is_o(v), z3.Or(cls == V.LIST_CID, cls == V.DICT_CID, cls == V.SET_CID))
    return Val.b(z3.If(z3.Or(Val.is_none(v), Val.is_i(v), Val.is_s(v), Val.is_b(v), Val.is_f(v), Val.is_t(v),
                             builtin_container),
                       z3.BoolVal(False), f(v)))


@builtin(getattr)
def b_getattr(it, args, kwargs, node):
    name = args[1]
    if isinstance(name, PyConst):
        name = name.obj
    else:
        nv = z3.simplify(Val.sv(it.to_val(name)))
        if not z3.is_string_value(nv):
            raise Unsupported('getattr with a symbolic name')
        name = nv.as_string()
    if len(args) == 2:
        return it.getattr_(args[0], name)
    base = args[0]
    if isinstance(base, PyConst):
        try:
            return PyConst(getattr(base.obj, name))
        except AttributeError:
            return args[2]
    base = it.to_val(base)
    if it.pure:
        v = it.attr_term(Val.ref(base), name)
        return z3.If(z3.Or(z3.Not(Val.is_o(base)), v == V.ABSENT), it.to_val(args[2]), v)
    if not it.st.branch(Val.is_o(base)):
        return args[2]
    v = it.attr_term(Val.ref(base), name)
    if it.st.branch(v == V.ABSENT):
        return args[2]
    it.st.note_ref(v)
    return v


@builtin(hasattr)
def b_hasattr(it, args, kwargs, node):
    base = args[0]
    name = args[1].obj if isinstance(args[1], PyConst) else z3.simplify(Val.sv(it.to_val(args[1]))).as_string()
    if isinstance(base, PyConst):
        return V.mk_bool(hasattr(base.obj, name))
    base = it.to_val(base)
    return Val.b(z3.And(Val.is_o(base), it.attr_term(Val.ref(base), name) != V.ABSENT))


@builtin(setattr)
def b_setattr(it, args, kwargs, node):
    name = args[1]
    if isinstance(name, PyConst):
        name = name.obj
    else:
        nv = z3.simplify(Val.sv(it.to_val(name)))
        if not z3.is_string_value(nv):
            raise Unsupported('setattr with a symbolic name')
        name = nv.as_string()
    it.setattr_(args[0], name, args[2])
    return V.NONE


@builtin(print)
def b_print(it, args, kwargs, node):
    """effect: the ghost sequence `printed` grows by one entry per call (the tuple of arguments)"""
    g = it.st.heap.ghost
    cur = g.get('printed')
    if cur is None:
        cur = z3.Const('G0_printed', SeqVal)
    entry = V.mk_tuple([it.to_val(a) for a in args])
    g['printed'] = z3.Concat(cur, z3.Unit(entry))
    return V.NONE


@builtin(enumerate)
def b_enumerate(it, args, kwargs, node):
    inner = it.iterable(args[0])
    if isinstance(inner, list):
        return PyConst([(i, e) for i, e in enumerate(inner)]) if all(isinstance(e, PyConst) for e in inner) else \
            IterV(z3.IntVal(len(inner)), None, 'enumerate-const')
    return IterV(inner.length, lambda k: V.mk_tuple([Val.i(k), inner.at(k)]), 'enumerate')


@builtin(range)
def b_range(it, args, kwargs, node):
    vs = [num_int(it.to_val(a)) for a in args]
    if len(vs) == 1:
        n = vs[0]
        return IterV(z3.If(n < 0, z3.IntVal(0), n), lambda k: Val.i(k), 'range')
    if len(vs) == 2:
        lo, hi = vs
        return IterV(z3.If(hi - lo < 0, z3.IntVal(0), hi - lo), lambda k: Val.i(lo + k), 'range')
    raise Unsupported('range with a step')


@builtin(zip)
def b_zip(it, args, kwargs, node):
    a = it.iterable(args[0])
    b = it.iterable(args[1])
    if isinstance(a, list) or isinstance(b, list) or len(args) != 2:
        raise Unsupported('zip over constants / more than two')
    n = z3.If(a.length < b.length, a.length, b.length)
    return IterV(n, lambda k: V.mk_tuple([a.at(k), b.at(k)]), 'zip')


@builtin(any)
def b_any(it, args, kwargs, node):
    v = args[0]
    if isinstance(v, SeqV):
        k = z3.Int(it.st.fresh_name('any'))
        return Val.b(z3.Exists([k], z3.And(0 <= k, k < z3.Length(v.seq), it.truth(v.seq[k]))))
    raise Unsupported('any() of a non-comprehension')


@builtin(all)
def b_all(it, args, kwargs, node):
    v = args[0]
    if isinstance(v, SeqV):
        k = z3.Int(it.st.fresh_name('all'))
        return Val.b(z3.ForAll([k], z3.Implies(z3.And(0 <= k, k < z3.Length(v.seq)), it.truth(v.seq[k]))))
    raise Unsupported('all() of a non-comprehension')


@builtin(abs)
def b_abs(it, args, kwargs, node):
    v = it.to_val(args[0])
    if not it.pure and not it.st.branch(is_numeric(v)):
        raise Unsupported('abs of a non-number')
    return z3.If(Val.is_f(v), Val.f(z3.If(Val.fv(v) < 0, -Val.fv(v), Val.fv(v))),
                 Val.i(z3.If(num_int(v) < 0, -num_int(v), num_int(v))))


@builtin(id)
def b_id(it, args, kwargs, node):
    v = it.to_val(args[0])
    return Val.i(V.uf('py_id', Val, V.I)(v))
