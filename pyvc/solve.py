"""Discharge one verification condition: z3 in-process, then the installed CLIs
(/usr/bin/cvc5 --strings-exp, z3-new, /usr/bin/z3) on the SMT-LIB2 dump."""
import os
import subprocess
import tempfile
import time
import z3
from . import vals as V
from .vals import Val


class Result:
    def __init__(self, verdict, backend, t, model=None, detail=None, zmodel=None):
        self.verdict, self.backend, self.time, self.model, self.detail = verdict, backend, t, model, detail
        self.zmodel = zmodel


def _has_quant(e, seen=None):
    seen = seen if seen is not None else set()
    if e.get_id() in seen:
        return False
    seen.add(e.get_id())
    if z3.is_quantifier(e):
        return True
    return any(_has_quant(c, seen) for c in e.children())


def _cone(pc, goal):
    """hypotheses sharing a non-constant ground subterm with the goal, transitively"""
    from .engine import _term_ids
    want = set(_term_ids(goal))
    rest = [(c, _term_ids(c)) for c in pc]
    chosen = []
    changed = True
    while changed:
        changed = False
        keep = []
        for c, ids in rest:
            if ids & want:
                chosen.append(c)
                want |= ids
                changed = True
            else:
                keep.append((c, ids))
        rest = keep
    return chosen


_DECL_CACHE = {}


def _uf_names(e):
    k = e.get_id()
    if k in _DECL_CACHE:
        return _DECL_CACHE[k]
    out = set()
    seen = set()
    stack = [e]
    while stack:
        x = stack.pop()
        if x.get_id() in seen:
            continue
        seen.add(x.get_id())
        if z3.is_app(x):
            if x.decl().kind() == z3.Z3_OP_UNINTERPRETED and (x.num_args() > 0 or z3.is_array(x)):
                out.add(x.decl().name())
            stack.extend(x.children())
        elif z3.is_quantifier(x):
            stack.append(x.body())
    if len(_DECL_CACHE) > 100000:
        _DECL_CACHE.clear()
    _DECL_CACHE[k] = out
    return out


def relevant_axioms(axioms, formulas):
    """ground axioms always; a quantified axiom only if it shares a function symbol with the query"""
    names = set()
    for f in formulas:
        names |= _uf_names(f)
    out = []
    for a in axioms:
        if not _has_quant(a) or (_uf_names(a) & names):
            out.append(a)
    return out


def _check(axioms, hyps, goal, timeout_ms):
    s = z3.Solver()
    s.set('timeout', timeout_ms)
    for a in relevant_axioms(axioms, list(hyps) + [goal]):
        s.add(a)
    for c in hyps:
        s.add(c)
    s.add(z3.Not(goal))
    return s, s.check()


def discharge(axioms, pc, goal, timeout_ms=10000, want_model=True, st=None, use_cli=True):
    t0 = time.time()
    if z3.is_true(goal):
        return Result('discharged', 'trivial', 0.0)
    # 1. quick attempt with the relevant quantifier-free hypotheses only (sound: fewer hypotheses)
    from .engine import _term_ids
    cone = _cone(pc, goal)
    chosen = set(c.get_id() for c in cone)
    hyps = [c for c in pc if not _has_quant(c) and (c.get_id() in chosen or not _term_ids(c))]
    if len(hyps) < len(pc):
        s, r = _check(axioms, hyps, goal, min(800, timeout_ms))
        if r == z3.unsat:
            return Result('discharged', 'z3', time.time() - t0)
    # 2. all hypotheses
    s, r = _check(axioms, pc, goal, timeout_ms)
    dt = time.time() - t0
    if r == z3.unsat:
        return Result('discharged', 'z3', dt)
    if r == z3.sat:
        m = s.model()
        return Result('refuted', 'z3', dt, model=model_summary(m), zmodel=m)
    # unknown: other back ends on the dump
    detail = s.reason_unknown()
    if os.environ.get('PYVC_DUMP'):
        import random
        open(os.path.join(os.environ['PYVC_DUMP'], 'vc_%d.smt2' % random.randrange(10**6)), 'w').write(s.to_smt2())
    if use_cli:
        smt = s.to_smt2()
        for name, cmd in (('cvc5', ['/usr/bin/cvc5', '--strings-exp', '--tlimit=%d' % timeout_ms]),):
            v = run_cli(cmd, smt, timeout_ms)
            if v == 'unsat':
                return Result('discharged', name, time.time() - t0)
    # candidate counterexample: a model of the quantifier-free hypotheses (to be replayed natively)
    qf_all = [c for c in pc if not _has_quant(c)]
    if not _has_quant(goal):
        s2, r2 = _check(axioms, qf_all, goal, timeout_ms)
        if r2 == z3.sat:
            m = s2.model()
            return Result('candidate', 'z3-qf', time.time() - t0, model=model_summary(m), zmodel=m, detail=detail)
    return Result('undecided', 'none', time.time() - t0, detail=detail)


def run_cli(cmd, smt, timeout_ms):
    fd, path = tempfile.mkstemp(suffix='.smt2', dir=os.environ.get('PYVC_TMP', None))
    try:
        with os.fdopen(fd, 'w') as f:
            f.write('(set-logic ALL)\n' if 'cvc5' in cmd[0] else '')
            f.write(smt)
        try:
            p = subprocess.run(cmd + [path], capture_output=True, text=True, timeout=timeout_ms / 1000.0 + 5)
        except subprocess.TimeoutExpired:
            return 'timeout'
        out = p.stdout.strip().splitlines()
        return out[0].strip() if out else 'error'
    finally:
        try:
            os.unlink(path)
        except OSError:
            pass


def pyval(model, v, depth=0):
    """python rendering of a Val term under a model (best effort, JSON-friendly)"""
    try:
        e = model.eval(v, model_completion=True)
    except z3.Z3Exception:
        return '<?>'
    return render(model, e, depth)


def render(model, e, depth=0):
    if depth > 4:
        return '...'
    e = z3.simplify(e)
    if not z3.is_app(e):
        return str(e)
    d = e.decl().name()
    if d == 'none':
        return None
    if d == 'absent':
        return '<absent>'
    if d == 'notimpl':
        return '<NotImplemented>'
    if d == 'b':
        return z3.is_true(e.arg(0))
    if d == 'i':
        a = e.arg(0)
        return a.as_long() if z3.is_int_value(a) else str(a)
    if d == 'f':
        a = e.arg(0)
        try:
            return float(a.as_fraction())
        except Exception:
            return str(a)
    if d == 's':
        a = e.arg(0)
        return a.as_string() if z3.is_string_value(a) else str(a)
    if d == 't':
        s = e.arg(0)
        n = model.eval(z3.Length(s), model_completion=True)
        if z3.is_int_value(n) and n.as_long() <= 8:
            return tuple(render(model, model.eval(s[i], model_completion=True), depth + 1) for i in range(n.as_long()))
        return str(s)
    if d == 'o':
        a = e.arg(0)
        return {'ref': a.as_long() if z3.is_int_value(a) else str(a)}
    if d == 'c':
        a = e.arg(0)
        if z3.is_int_value(a) and 0 <= a.as_long() < len(V.CONSTS):
            o = V.CONSTS[a.as_long()]
            return '<%s>' % getattr(o, '__qualname__', repr(o))
        return '<const %s>' % a
    return str(e)


def model_summary(m, limit=40):
    out = {}
    for d in m.decls():
        if d.arity() == 0 and (d.name().startswith('a_')):
            out[d.name()] = str(render(m, m[d]))
        if len(out) >= limit:
            break
    return out
