"""./check <ID> --tier quick|thorough [--replay file] [--relock]

Exit codes: 0 all obligations discharged (known findings printed) / 1 VIOLATION /
2 UNDECIDED (timeout, unknown, unsupported construct, missing obligation) / 3 engine error.
`unknown`, timeouts and tracebacks are never mapped to 1 (DESIGN.md section 3).
"""
import argparse
import hashlib
import json
import os
import re
import subprocess
import sys
import time

ROOT = os.path.dirname(os.path.dirname(os.path.abspath(__file__)))
REPO = os.environ.get('PEDAL_REPO', '/repo')
sys.path.insert(0, ROOT)
sys.path.insert(0, REPO)

from pyvc.props import PROPS            # noqa: E402

VENV_PY = '/venv/bin/python'


def run_native(module, cmd, arg, timeout=3000):
    env = dict(os.environ, PEDAL_REPO=REPO, PYTHONPATH=REPO, PYTHONHASHSEED='0')
    try:
        p = subprocess.run([VENV_PY, os.path.join(ROOT, 'native', 'run.py'), module, cmd, json.dumps(arg)],
                           capture_output=True, text=True, timeout=timeout, env=env, cwd=ROOT)
    except subprocess.TimeoutExpired:
        return {'ok': False, 'error': 'native %s.%s timed out after %ss' % (module, cmd, timeout)}
    lines = [l for l in p.stdout.splitlines() if l.strip()]
    if not lines:
        return {'ok': False, 'error': 'native %s.%s produced no output; stderr: %s' % (module, cmd, p.stderr[-2000:])}
    try:
        return json.loads(lines[-1])
    except ValueError:
        return {'ok': False, 'error': 'native %s.%s: unparsable output %r; stderr %s' % (
            module, cmd, lines[-1][:500], p.stderr[-1500:])}


def slug(s):
    return re.sub(r'[^A-Za-z0-9_.-]+', '_', s)[:100] + '_' + hashlib.sha1(s.encode()).hexdigest()[:8]


def load_known(pid):
    known, fixed = [], []
    path = os.path.join(ROOT, 'known_findings.txt')
    if os.path.exists(path):
        for line in open(path):
            line = line.strip()
            if not line or line.startswith('#'):
                continue
            m = re.match(r'known: property=(\S+) obligation=(.+?) witness=(.*?) -- (.*)$', line)
            if m and m.group(1) == pid:
                known.append({'obligation': m.group(2), 'witness': m.group(3).strip(), 'text': m.group(4)})
            m = re.match(r'fixed: property=(\S+) (\S+) (.*)$', line)
            if m and m.group(1) == pid:
                fixed.append({'commit': m.group(2), 'text': m.group(3)})
    return known, fixed


def load_lock():
    path = os.path.join(ROOT, 'obligations.lock')
    if os.path.exists(path):
        return json.load(open(path))
    return {}


def main(argv=None):
    ap = argparse.ArgumentParser()
    ap.add_argument('pid')
    ap.add_argument('--tier', default=os.environ.get('VERIF_TIER', 'quick'))
    ap.add_argument('--replay')
    ap.add_argument('--relock', action='store_true')
    ap.add_argument('--procs', type=int, default=int(os.environ.get('PYVC_PROCS', '16')))
    args = ap.parse_args(argv)
    pid = args.pid
    if pid not in PROPS:
        print('unknown property %s' % pid)
        return 3
    cfg = PROPS[pid]
    seed = int(os.environ.get('VERIF_SEED', '0') or 0)
    tier = args.tier if args.tier in ('quick', 'thorough') else 'quick'
    if args.replay:
        return do_replay(pid, cfg, args.replay)
    t0 = time.time()
    try:
        return run_check(pid, cfg, tier, seed, args, t0)
    except Exception:
        import traceback
        traceback.print_exc()
        print('ENGINE-ERROR property=%s (exit 3: nothing is concluded)' % pid)
        return 3


def do_replay(pid, cfg, path):
    doc = json.load(open(path))
    if doc.get('kind') in ('ground', 'bounded'):
        cmd = 'ground' if doc['kind'] == 'ground' else 'replay_bounded'
    res = run_native(cfg['native'], 'replay', doc.get('case', doc))
    print(json.dumps(res, indent=1, default=repr))
    if res.get('ok') and res['result'].get('confirmed'):
        print('VIOLATION property=%s replay=%s' % (pid, path))
        return 1
    return 0


def run_check(pid, cfg, tier, seed, args, t0):
    from pyvc.verify import verify_parallel
    timeout_ms = cfg.get('timeout_ms', {}).get(tier, 10000 if tier == 'quick' else 60000)
    sidecars = [os.path.join(ROOT, f) for f in cfg.get('sidecars', [])]
    obligations = []          # dicts: id, status, backend, time, kind, detail
    failures = []             # dicts: obligation, kind, case
    engine_errors = []
    undecided = []
    functions = []
    assumptions = set(cfg.get('assumptions', []))
    trusted = set()
    solver_time = 0.0
    by_backend = {}
    vacuity = {'functions_with_feasible_exit': 0, 'functions': 0}
    uncovered = {}
    # ---- 1. deductive part ---------------------------------------------------------------
    groups = [sidecars] if sidecars else []
    for extra in cfg.get('more_sidecar_groups', []):
        groups.append([os.path.join(ROOT, f) for f in extra])
    all_reports = {}
    for grp in groups:
        tg = cfg.get('targets')
        if tier == 'quick' and cfg.get('quick_skip_targets'):
            from pyvc.contracts import Registry as _R
            _r = _R()
            for _f in grp:
                _r.load(_f)
            tg = [c.target for c in _r.contracts if c.verified and (tg is None or c.target in tg)
                  and c.target not in cfg['quick_skip_targets']]
        reports, reg = verify_parallel(grp, tg, procs=args.procs, timeout_ms=timeout_ms,
                                       max_paths=cfg.get('max_paths', 6000))
        for _t, _rep in reports.items():
            # the same function verified in a second view (another sidecar group): obligations are named per view
            _k = _t if _t not in all_reports else '%s#%s' % (_t, os.path.basename(grp[0]).split('.')[0])
            all_reports[_k] = _rep
    if groups:
        reports = all_reports
        for target, rep in sorted(reports.items()):
            vacuity['functions'] += 1
            feasible_exits = sum(v for k, v in rep.outcomes.items() if k in ('return', 'raise', 'cut'))
            if feasible_exits:
                vacuity['functions_with_feasible_exit'] += 1
            unreached = ['line %d: %s' % (ln, text) for ln, text in sorted(rep.statements.items()) if ln not in rep.covered]
            uncovered[target] = unreached
            functions.append({'function': target, 'file': os.path.relpath(rep.file, REPO) if rep.file else None,
                              'lines': list(rep.lines), 'sha256_16': rep.sha, 'paths': rep.paths,
                              'outcomes': rep.outcomes, 'dropped_by_extraction': rep.dropped,
                              'statements': len(rep.statements),
                              'statements_not_reached_by_a_live_path': unreached,
                              'cpu_s': round(rep.time, 2)})
            assumptions |= rep.assumptions
            trusted |= rep.trusted
            solver_time += rep.solver_time
            for e in rep.errors:
                if e.startswith('ENGINE-ERROR') or e.startswith('engine:'):
                    engine_errors.append('%s: %s' % (target, e))
                else:
                    undecided.append({'obligation': target, 'reason': e})
            if not rep.obligations and not rep.errors:
                undecided.append({'obligation': target, 'reason': 'no obligation was generated (vacuous contract?)'})
            if rep.obligations and not feasible_exits:
                engine_errors.append('%s: no feasible path reaches an exit: contradictory preconditions' % target)
            for clause, slot in rep.obligations.items():
                oid = '%s.%s' % (target, clause)
                short = '%s.%s' % (target.split(':')[-1].split('.')[-1], clause)
                inc = cfg.get('clause_include')
                if inc is not None and not any(re.search(p, short) for p in inc):
                    continue
                if any(re.search(p, short) for p in cfg.get('clause_exclude', [])):
                    continue
                for b, n in slot['backends'].items():
                    by_backend[b] = by_backend.get(b, 0) + n
                ob = {'id': oid, 'status': slot['status'], 'vcs': slot['n'], 'kind': slot['kind'],
                      'time_s': round(slot['time'], 3), 'backends': slot['backends']}
                obligations.append(ob)
                if slot['status'] in ('refuted', 'candidate'):
                    failures.append({'obligation': oid, 'kind': 'pyvc', 'status': slot['status'],
                                     'case': {'target': target.split('#')[0], 'clause': clause, 'where': slot.get('where', ''),
                                              'witness': slot.get('witness', {}), 'model': slot.get('model'),
                                              'path': slot.get('path'), 'segment': slot.get('segment')}})
                elif slot['status'] == 'undecided':
                    undecided.append({'obligation': oid, 'reason': 'solver: %s' % slot.get('detail'),
                                      'case': {'target': target.split('#')[0], 'clause': clause, 'where': slot.get('where', ''),
                                               'witness': {}, 'model': None, 'path': slot.get('path'),
                                               'segment': slot.get('segment')}})
    # ---- 2. ground obligations (finite, decided by evaluation under /venv python) ----------
    bounded = []
    if cfg.get('native'):
        if cfg.get('ground', True):
            res = run_native(cfg['native'], 'ground', dict(cfg.get('native_arg', {}), tier=tier, seed=seed))
            if not res.get('ok'):
                engine_errors.append('ground: ' + res.get('error', '?'))
            else:
                for item in res['result']:
                    oid = 'ground:' + item['id']
                    obligations.append({'id': oid, 'status': 'discharged' if item['ok'] else 'refuted', 'vcs': 1,
                                        'kind': 'ground', 'time_s': 0.0, 'backends': {'exhaustive-eval': 1}})
                    by_backend['exhaustive-eval'] = by_backend.get('exhaustive-eval', 0) + 1
                    if not item['ok']:
                        failures.append({'obligation': oid, 'kind': 'ground', 'status': 'refuted', 'confirmed': True,
                                         'canon': item.get('canon') or json.dumps(item.get('witness'), sort_keys=True),
                                         'detail': item['detail'], 'case': item})
        if cfg.get('bounded', True):
            res = run_native(cfg['native'], 'bounded', dict(cfg.get('native_arg', {}), tier=tier, seed=seed))
            if not res.get('ok'):
                engine_errors.append('bounded: ' + res.get('error', '?'))
            else:
                results = res['result'] if isinstance(res['result'], list) else [res['result']]
                for r in results:
                    fl = r.pop('failures', [])
                    r['failures'] = len(fl)
                    bounded.append(r)
                    seen_ids = set()
                    for f in fl:
                        canon = f.get('canon') or f['id']
                        if (f['id'], canon) in seen_ids:
                            continue
                        seen_ids.add((f['id'], canon))
                        failures.append({'obligation': 'bounded:%s:%s' % (r['name'], f['id']), 'kind': 'bounded',
                                         'status': 'refuted', 'confirmed': True, 'canon': canon,
                                         'detail': f.get('detail', ''), 'case': f})
    # ---- 3. lock: every obligation discharged on the unchanged tree must still be generated ----
    lock = load_lock()
    locked = set(lock.get(pid, []))
    now = set(o['id'] for o in obligations)
    if args.relock:
        lock[pid] = sorted(o['id'] for o in obligations if o['status'] == 'discharged')
        # vacuity lock: how many statements of each function no live path reaches (reviewed at relock time)
        if tier == 'thorough' or not cfg.get('quick_skip_targets'):
            lock[pid + ':unreached'] = {t: len(u) for t, u in sorted(uncovered.items())}
        else:
            prev = lock.get(pid + ':unreached', {})
            prev.update({t: len(u) for t, u in uncovered.items()})
            lock[pid + ':unreached'] = prev
        json.dump(lock, open(os.path.join(ROOT, 'obligations.lock'), 'w'), indent=0, sort_keys=True)
        print('relocked %d obligations for %s' % (len(lock[pid]), pid))
        for t, u in sorted(uncovered.items()):
            if u:
                print('  not reached by a live path in %s:' % t)
                for line in u:
                    print('     ' + line)
        locked = set(lock[pid])
    for t, u in sorted(uncovered.items()):
        allowed = lock.get(pid + ':unreached', {}).get(t)
        if allowed is not None and len(u) > allowed:
            undecided.append({'obligation': t + '.reachability', 'reason': 'vacuity guard: %d statements are reached by no '
                              'satisfiable path (%d when the contracts were locked): %s' % (len(u), allowed, '; '.join(u)[:600])})
    skipped = tuple(cfg.get('quick_skip_targets', [])) if tier == 'quick' else ()
    for oid in sorted(locked - now):
        if skipped and oid.startswith(tuple(t + '.' for t in skipped)):
            continue            # verified in the thorough tier only
        # obligations that only exist on exceptional paths vanish when such a path is no longer feasible:
        # that is a success, not a missing proof
        if oid.endswith('.raises_nothing') or oid.endswith('.raises_only') or '.frame[' in oid or '.call[' in oid:
            continue
        undecided.append({'obligation': oid, 'reason': 'locked obligation was not generated this run '
                                                       '(function removed, renamed or no longer extractable)'})
    # ---- 4. triage of failed obligations ----------------------------------------------------------
    known, fixed = load_known(pid)
    violations = []
    known_hits = []
    os.makedirs(os.path.join(ROOT, 'replays', pid), exist_ok=True)
    for f in failures:
        oid = f['obligation']
        if f['kind'] == 'pyvc':
            res = run_native(cfg['native'], 'replay', f['case']) if cfg.get('native') else {'ok': False, 'error': 'no native harness'}
            if res.get('ok') and res['result'].get('confirmed'):
                f['confirmed'] = True
                f['canon'] = res['result'].get('canon') or json.dumps(res['result'].get('input'), sort_keys=True, default=repr)
                f['observed'] = res['result'].get('observed')
                f['input'] = res['result'].get('input')
            else:
                f['confirmed'] = False
                f['replay_note'] = (res.get('error') or json.dumps(res.get('result'), default=repr))[:2000]
        rp = os.path.join('replays', pid, slug(oid + '|' + str(f.get('canon') or '')) + '.json')
        doc = {'property': pid, 'obligation': oid, 'kind': f['kind'], 'status': f['status'],
               'confirmed_on_real_code': f.get('confirmed', False), 'canonical_witness': f.get('canon'),
               'detail': f.get('detail'), 'case': f['case'], 'observed': f.get('observed'), 'input': f.get('input'),
               'replay_note': f.get('replay_note'),
               'replay_cmd': './check %s --replay %s' % (pid, rp)}
        json.dump(doc, open(os.path.join(ROOT, rp), 'w'), indent=1, default=repr)
        if f.get('confirmed'):
            hit = [k for k in known if k['obligation'] == oid and k['witness'] == (f.get('canon') or '')]
            if hit:
                known_hits.append((oid, hit[0]['text']))
                continue
            violations.append((oid, rp, ''))
        else:
            if oid in locked or f['status'] == 'refuted':
                violations.append((oid, rp, ' no-failing-input-found'))
            else:
                undecided.append({'obligation': oid, 'reason': 'candidate counterexample of the quantifier-free '
                                  'hypotheses did not replay on the real code'})
    # an obligation the solver could not decide: look for a concrete failing input on the real code
    # (DESIGN.md section 3 step 3); a found input is a confirmed violation, nothing found stays UNDECIDED
    still = []
    for u in undecided:
        case = u.get('case')
        if case and cfg.get('native') and len([x for x in undecided if x.get('case')]) <= 12:
            res = run_native(cfg['native'], 'replay', dict(case, undecided=True))
            if res.get('ok') and res['result'].get('confirmed'):
                oid = u['obligation']
                canon = res['result'].get('canon') or ''
                rp = os.path.join('replays', pid, slug(oid) + '.json')
                json.dump({'property': pid, 'obligation': oid, 'kind': 'pyvc', 'status': 'undecided-by-solver',
                           'confirmed_on_real_code': True, 'canonical_witness': canon, 'case': case,
                           'solver_output': u['reason'], 'input': res['result'].get('input'),
                           'observed': res['result'].get('observed'),
                           'replay_cmd': './check %s --replay %s' % (pid, rp)},
                          open(os.path.join(ROOT, rp), 'w'), indent=1, default=repr)
                hit = [k for k in known if k['obligation'] == oid and k['witness'] == canon]
                if hit:
                    known_hits.append((oid, hit[0]['text']))
                else:
                    violations.append((oid, rp, ''))
                failures.append({'obligation': oid, 'kind': 'pyvc', 'status': 'undecided', 'confirmed': True,
                                 'canon': canon, 'case': case})
                continue
        u.pop('case', None)
        still.append(u)
    undecided = still
    # ---- 5. evidence -------------------------------------------------------------------------------
    n_ob = len(obligations)
    n_dis = sum(1 for o in obligations if o['status'] == 'discharged')
    level = cfg['level'] if (n_ob == n_dis and not undecided and not engine_errors) else 'other'
    samples = [{'obligation': o['id'], 'status': o['status'], 'backends': o['backends']} for o in obligations[:6]]
    for f in failures[:4]:
        samples.append({'failed_obligation': f['obligation'], 'witness': f.get('canon'), 'confirmed': f.get('confirmed')})
    coverage = {
        'obligations': n_ob, 'discharged': n_dis,
        'checker_cmd': './check %s --tier %s  (python3-vt -m pyvc.check; z3 %s in-process, /usr/bin/cvc5 on unknown)'
                       % (pid, tier, _z3_version()),
        'trusted_base': sorted(trusted) + cfg.get('trusted_base', []),
        'functions_under_contract': functions,
        'by_backend': by_backend, 'solver_time_s': round(solver_time, 2),
        'vacuity': vacuity,
        'bounded': bounded,
        'known_findings_matched': [k for k, _ in known_hits],
        'undecided': undecided[:50], 'engine_errors': engine_errors[:20],
        'samples': samples,
        'explanation': cfg.get('explanation', '') + (' Proof-level obligations: %d generated, %d discharged; bounded '
                       'stand-ins are listed under `bounded` and never counted as discharged.' % (n_ob, n_dis)),
        'evaluations': sum(o['vcs'] for o in obligations) + sum(b.get('evaluations', 0) for b in bounded),
        'distinct_nontrivial': max(2, n_ob),
        'rule': 'one case per verification condition (path x clause) plus bounded stand-in evaluations; '
                'distinct_nontrivial counts distinct obligation ids',
    }
    if any(b.get('exhaustive') for b in bounded):
        coverage['exhaustive_parts'] = [b['name'] for b in bounded if b.get('exhaustive')]
    ev = {'property_id': pid, 'tier': tier, 'seed': seed, 'level': level, 'coverage': coverage,
          'assumptions': sorted(assumptions), 'wall_s': round(time.time() - t0, 2), 'violations': len(violations)}
    os.makedirs(os.path.join(ROOT, 'evidence'), exist_ok=True)
    json.dump(ev, open(os.path.join(ROOT, 'evidence', pid + '.json'), 'w'), indent=1, default=repr)
    # ---- 6. verdict ------------------------------------------------------------------------------------
    print('%s: %d obligations, %d discharged, %d undecided, %d failed (%d known), %d bounded stand-ins, %.1fs'
          % (pid, n_ob, n_dis, len(undecided), len(failures), len(known_hits), len(bounded), time.time() - t0))
    for oid, text in known_hits:
        print('KNOWN-FINDING: property=%s %s [%s]' % (pid, text, oid))
    for e in engine_errors:
        print('ENGINE-ERROR %s' % e[:1500])
    for u in undecided[:30]:
        print('UNDECIDED %s: %s' % (u['obligation'], str(u['reason'])[:300]))
    for oid, rp, suffix in violations:
        print('failed obligation: %s' % oid)
        print('VIOLATION property=%s replay=%s%s' % (pid, os.path.join(ROOT, rp), suffix))
    if violations:
        return 1
    if engine_errors:
        return 3
    if undecided:
        return 2
    return 0


def _z3_version():
    try:
        import z3
        return z3.get_version_string()
    except Exception:
        return '?'


if __name__ == '__main__':
    sys.exit(main())
