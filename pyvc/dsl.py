"""Names used by sidecar contracts, so the files are also loadable by an editor/linter.
The engine parses sidecars; it never imports this module's functions."""


def _clause(*a, **k):
    return None


def spec(f):
    return f


def target(*a, **k):
    return lambda f: f


assumed = lemma = target
requires = ensures = modifies = raises_nothing = raises_only = ensures_raises = on_any_exit = _clause
invariant = abstract = witness = let = unroll = uses_lemma = define = cut = _clause
