"""C05: whatever the sandbox patches is restored however execution ends.

Ghost `live_patches` counts started-and-not-stopped unittest.mock patches (each stands for one
borrowed piece of process state: sys.stdout, sys.modules contents, time.sleep)."""
from pyvc.dsl import *
from pedal.sandbox.sandbox import Sandbox
from pedal.sandbox.data import SandboxContext
from pedal.sandbox.tracer import SandboxBasicTracer, SandboxNativeTracer
import sys
import io

INSTANCE_CLASSES = [Sandbox, SandboxContext, SandboxBasicTracer]


@spec
def wf_stacks(self):
    return (instance_of(self, Sandbox) and is_list(self._current_patches) and is_list(self._current_stdout)
            and self._current_patches is not self._current_stdout
            and forall(lambda j: is_tuple(item(self._current_patches, j)), 0, nitems(self._current_patches)))


@spec
def patch_groups_hold_objects(self):
    return forall(lambda j, k: implies(0 <= k and k < seq_len(tuple_items(item(self._current_patches, j))),
                                       is_obj(tuple_items(item(self._current_patches, j))[k])),
                  0, nitems(self._current_patches))


@target("pedal.sandbox.sandbox:Sandbox._start_patches")
def _start_patches(self, *patches):
    requires(wf_stacks(self) and is_tuple(patches))
    abstract("a_patch.start", raises=None, modifies=[ghost('live_patches')],
             ensures=[ghost('live_patches') == old(ghost('live_patches')) + 1])
    requires(forall(lambda j: is_obj(tuple_items(patches)[j]), 0, seq_len(tuple_items(patches))))
    modifies(items(self._current_patches), ghost('live_patches'))
    raises_nothing()
    invariant(1, "one_start_per_patch", ghost('live_patches') == entry(ghost('live_patches')) + seen,
              modifies=[ghost('live_patches')])
    ensures("tracked", same_seq(items(self._current_patches), old(items(self._current_patches)) + [patches]))
    ensures("all_started", ghost('live_patches') == old(ghost('live_patches')) + seq_len(tuple_items(patches)))


@target("pedal.sandbox.sandbox:Sandbox._stop_patches")
def _stop_patches(self):
    requires(wf_stacks(self))
    requires(patch_groups_hold_objects(self))
    abstract("a_patch.stop", raises=None, modifies=[ghost('live_patches')],
             ensures=[ghost('live_patches') == old(ghost('live_patches')) - 1])
    let(n=nitems(self._current_patches))
    let(top=item(self._current_patches, nitems(self._current_patches) - 1))
    modifies(items(self._current_patches), ghost('live_patches'))
    raises_nothing()
    invariant(1, "one_stop_per_patch", ghost('live_patches') == entry(ghost('live_patches')) - seen,
              modifies=[ghost('live_patches')])
    ensures("nothing_tracked_nothing_done", implies(n == 0, nitems(self._current_patches) == 0
                                                    and ghost('live_patches') == old(ghost('live_patches'))))
    ensures("top_group_stopped", implies(n > 0, nitems(self._current_patches) == n - 1
                                         and ghost('live_patches') == old(ghost('live_patches')) - seq_len(tuple_items(top))
                                         and forall(lambda j: item(self._current_patches, j) == old(item(self._current_patches, j)), 0, n - 1)))


@assumed("_io:StringIO.getvalue", "everything written to the buffer")
def getvalue(self):
    raises_nothing()
    ensures(is_str(result))


@assumed("pedal.sandbox.sandbox:Sandbox.append_output", "verified under C15")
def append_output(self, raw_output, context):
    requires(is_str(raw_output))
    modifies(self.raw_output, context.output, items(self.output))
    raises_nothing()


@target("pedal.sandbox.sandbox:Sandbox._stop_mocking")
def _stop_mocking(self, context):
    requires(wf_stacks(self) and nitems(self._current_stdout) >= 1 and is_list(self.output)
             and distinct(self.output, self._current_patches, self._current_stdout))
    requires(patch_groups_hold_objects(self))
    requires(forall(lambda j: is_obj(item(self._current_stdout, j)), 0, nitems(self._current_stdout)))
    abstract("current_stdout.getvalue", raises=ValueError, ensures=[is_str(result)])
    let(np=nitems(self._current_patches))
    let(ns=nitems(self._current_stdout))
    let(top=item(self._current_patches, nitems(self._current_patches) - 1))
    modifies(items(self._current_patches), items(self._current_stdout), ghost('live_patches'), self.raw_output,
             context.output, items(self.output))
    raises_only(ValueError)
    on_any_exit("stdout_buffer_popped", nitems(self._current_stdout) == ns - 1)
    on_any_exit("patch_group_popped", implies(np > 0, nitems(self._current_patches) == np - 1
                                              and ghost('live_patches') == old(ghost('live_patches')) - seq_len(tuple_items(top))))


# ---------------------------------------------------------------------------------------------
# execution: compile / exec are abstract callees controlled by the student program

@spec
def wf_sandbox(self):
    return (wf_stacks(self) and patch_groups_hold_objects(self) and is_list(self.output) and is_list(self._context)
            and is_dict(self.data) and is_int(self._next_context_id) and instance_of(self.trace, SandboxBasicTracer)
            and is_obj(self.report) and has_attr(self, 'target') and has_attr(self, 'exception')
            and has_attr(self.report, 'submission')
            and forall(lambda j: is_obj(item(self._current_stdout, j)), 0, nitems(self._current_stdout))
            and distinct(self.output, self._current_patches, self._current_stdout, self._context))


@assumed("pedal.sandbox.sandbox:Sandbox._start_mocking",
         "pushes one stdout buffer and one group of three started patches (sys.modules, sys.stdout, time.sleep); "
         "observed by the bounded stand-in B-sandbox")
def _start_mocking(self, context):
    requires(wf_stacks(self))
    modifies(items(self._current_patches), items(self._current_stdout), ghost('live_patches'), dict_of_any())
    raises_nothing()
    ensures(nitems(self._current_stdout) == old(nitems(self._current_stdout)) + 1)
    ensures(nitems(self._current_patches) == old(nitems(self._current_patches)) + 1)
    ensures(forall(lambda j: eqv(item(self._current_stdout, j), old(item(self._current_stdout, j))), 0,
                   old(nitems(self._current_stdout))))
    ensures(forall(lambda j: eqv(item(self._current_patches, j), old(item(self._current_patches, j))), 0,
                   old(nitems(self._current_patches))))
    ensures(is_obj(item(self._current_stdout, nitems(self._current_stdout) - 1)))
    ensures(is_tuple(item(self._current_patches, nitems(self._current_patches) - 1))
            and seq_len(tuple_items(item(self._current_patches, nitems(self._current_patches) - 1))) == 3
            and forall(lambda k: is_obj(tuple_items(item(self._current_patches, nitems(self._current_patches) - 1))[k]), 0, 3))
    ensures(ghost('live_patches') == old(ghost('live_patches')) + 3)


@assumed("pedal.sandbox.sandbox:Sandbox._capture_exception",
         "builds the runtime feedback; may itself fail (C04 deals with that); never touches the patch/stdout stacks")
def _capture_exception(self, exception, exc_info, code, filename):
    modifies(self.exception, self.feedback, attr_of_any('feedback'))
    raises_only(Exception)


@assumed("pedal.sandbox.sandbox:Sandbox.clear_exception", "sets exception and feedback to None")
def clear_exception(self):
    modifies(self.exception, self.feedback)
    raises_nothing()


@assumed("pedal.sandbox.data:SandboxContext.__init__", "plain record of one execution")
def SandboxContext__init__(self, context_id, code, filename, kind, target, inputs, output, exception, submission, **meta):
    modifies(attrs(self))
    raises_nothing()


@assumed("pedal.sandbox.tracer:SandboxBasicTracer.as_filename", "remembers the file being traced; returns the tracer")
def as_filename(self, filename, code):
    modifies(self.filename, self.code)
    raises_nothing()
    ensures(result is self)


@assumed("pedal.sandbox.tracer:SandboxBasicTracer.__enter__", "tracer context managers install their trace function")
def tracer__enter__(self):
    modifies(ghost('trace_installed'))
    raises_nothing()
    ensures(ghost('trace_installed') == old(ghost('trace_installed')) + 1)


@assumed("pedal.sandbox.tracer:SandboxBasicTracer.__exit__", "and remove it again; exceptions are not suppressed")
def tracer__exit__(self, exc_type, exc_val, traceback):
    modifies(ghost('trace_installed'))
    raises_nothing()
    ensures(result is None and ghost('trace_installed') == old(ghost('trace_installed')) - 1)


@assumed("sys:exc_info", "the exception being handled")
def exc_info():
    raises_nothing()


@assumed("pedal.sandbox.timeout:_verif_sync",
         "verification hook: a no-op unless PEDAL_EDU_PEDAL_VERIF=1 and a checker installed a callback")
def _verif_sync(point):
    raises_nothing()


@assumed("pedal.sandbox.timeout:current_thread_was_terminated",
         "sequential view: the calling thread is not a worker that a timeout has abandoned (the abandoned worker's path "
         "is the early return checked by the bounded stand-in B-timeout-schedules of C14)")
def current_thread_was_terminated():
    raises_nothing()
    ensures(result is False)


@target("pedal.sandbox.sandbox:Sandbox._execute")
def _execute(self, code, filename, kind, threaded, **meta):
    requires(wf_sandbox(self) and not truthy(threaded) and is_dict(meta))
    abstract("compile", raises=Exception)
    abstract("exec", raises=BaseException, modifies=[mapping(self.data), ghost('printed')])
    modifies(self.exception, self.feedback, attr_of_any('feedback'), items(self._context), mapping(self.data),
             items(self._current_patches), items(self._current_stdout), ghost('live_patches'), ghost('trace_installed'),
             ghost('printed'), self.raw_output, items(self.output), attr_of_any('output'), self._next_context_id,
             self.trace.filename, self.trace.code, dict_of_any())
    on_any_exit("patch_stack_balanced", nitems(self._current_patches) == old(nitems(self._current_patches)))
    on_any_exit("stdout_stack_balanced", nitems(self._current_stdout) == old(nitems(self._current_stdout)))
    on_any_exit("every_patch_stopped", ghost('live_patches') == old(ghost('live_patches')))
    on_any_exit("trace_function_restored", ghost('trace_installed') == old(ghost('trace_installed')))
    ensures("returns_the_sandbox", result is self)
