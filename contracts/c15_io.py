"""C15: captured output and mocked input of the sandbox.

`lines_view` is typed from the statement: text with trailing whitespace removed, split into
lines, each right-stripped; an execution that printed nothing contributes no entry."""
from pyvc.dsl import *
from pedal.sandbox.sandbox import Sandbox
from pedal.sandbox.data import SandboxContext

INSTANCE_CLASSES = [Sandbox, SandboxContext]
CLASS_CONSTS = {Sandbox: ['MAXIMUM_INPUTS']}


@spec
def wf_output(self):
    return (instance_of(self, Sandbox) and is_str(self.raw_output) and is_list(self.output))


@target("pedal.sandbox.sandbox:Sandbox.append_output")
def append_output(self, raw_output, context):
    requires(wf_output(self) and is_str(raw_output) and instance_of(context, SandboxContext) and context is not self)
    let(pieces=split(rstrip(raw_output), "\n"))
    let(n0=nitems(self.output))
    modifies(self.raw_output, context.output, items(self.output))
    raises_nothing()
    ensures("raw_is_concatenation", self.raw_output == old(self.raw_output) + raw_output)
    ensures("execution_share", context.output == raw_output)
    ensures("silent_execution_adds_no_line", implies(raw_output == "", same_seq(items(self.output), old(items(self.output)))))
    ensures("lines_appended_in_order", implies(raw_output != "",
            same_seq(items(self.output), old(items(self.output)) + comp_map(lambda line: line.rstrip(), pieces))))
    witness(raw_output=raw_output, previous=self.raw_output)


@target("pedal.sandbox.sandbox:Sandbox.clear_output")
def clear_output(self):
    requires(wf_output(self))
    modifies(self.raw_output, items(self.output))
    raises_nothing()
    ensures("both_views_empty", self.raw_output == "" and nitems(self.output) == 0 and result is self)


@spec
def wf_inputs(self):
    return instance_of(self, Sandbox) and is_list(self.inputs)


@target("pedal.sandbox.sandbox:Sandbox.set_input")
def set_input(self, inputs, clear=True):
    requires(wf_inputs(self))
    requires(inputs is None or is_str(inputs) or is_int(inputs) or is_float(inputs) or is_bool(inputs)
             or is_list(inputs) or is_tuple(inputs))
    requires(inputs is not self.inputs)
    let(base=old_or_empty(clear, self.inputs))
    modifies(self.inputs, items(self.inputs))
    raises_nothing()
    ensures("returns_self", result is self)
    ensures("still_a_list", is_list(self.inputs))
    ensures("none_empties", implies(inputs is None, nitems(self.inputs) == 0))
    ensures("string_queued", implies(is_str(inputs), same_seq(items(self.inputs), base + [inputs])))
    ensures("number_queued_as_text", implies(is_int(inputs) or is_float(inputs) or is_bool(inputs),
                                             same_seq(items(self.inputs), base + [str_of(inputs)])))
    ensures("sequence_queued_in_order", implies(is_list(inputs) or is_tuple(inputs),
            same_seq(items(self.inputs), base + comp_map(lambda value: str(value), elements(inputs)))))
    witness(inputs=inputs, clear=clear)


@target("pedal.sandbox.sandbox:Sandbox.clear_input")
def clear_input(self):
    requires(wf_inputs(self))
    modifies(self.inputs, items(self.inputs))
    raises_nothing()
    ensures("queue_empty", is_list(self.inputs) and nitems(self.inputs) == 0 and result is self)


@target("pedal.sandbox.sandbox:Sandbox._track_inputs.<locals>._input_tracker", captures=['self', 'context_inputs'])
def _input_tracker(*args, **kwargs):
    requires(is_tuple(args))
    requires(instance_of(self, Sandbox) and is_list(self.inputs) and is_list(self._context)
             and nitems(self._context) >= 1 and is_int(self._called_inputs) and self._context is not self.inputs)
    let(ctx=item(self._context, nitems(self._context) - 1))
    requires(is_obj(ctx) and is_list(ctx.inputs) and ctx.inputs is not self.inputs and ctx.inputs is not self._context)
    let(prompt=tuple_items(args)[0] if seq_len(tuple_items(args)) > 0 else "")
    let(n0=nitems(self.inputs))
    modifies(items(self.inputs), items(ctx.inputs), self._called_inputs, ghost('printed'))
    raises_only(IOError)
    ensures("fifo_head", implies(n0 > 0, eqv(result, old(item(self.inputs, 0)))
                                 and nitems(self.inputs) == n0 - 1
                                 and forall(lambda j: item(self.inputs, j) == old(item(self.inputs, j + 1)), 0, n0 - 1)))
    ensures("default_when_empty", implies(n0 == 0, result == '0' and nitems(self.inputs) == 0))
    ensures("prompt_echoed_once", same_seq(printed(), old(printed()) + [(prompt,)]))
    ensures("recorded_in_context", same_seq(items(ctx.inputs), old(items(ctx.inputs)) + [result]))
    ensures_raises("limit_only", IOError, self._called_inputs >= 100000)
