"""C01 (part 1): the sort key of the simple resolver.

The order below is typed from the C01 statement, not read from the code."""
from pyvc.dsl import *
from pedal.core.feedback import Feedback

DOC_ORDER = ["highest", "syntax", "mistakes", "instructor", "algorithmic", "runtime", "student",
             "specification", "positive", "instructions", "uncategorized", "lowest"]
DOC_ALIASES = {"parser": "syntax", "verifier": "syntax", "instructor": "instructor", "analyzer": "algorithmic"}


@spec
def rank(c):
    """index of c in the documented order, 12 for any other category"""
    return DOC_ORDER.index(c) if c in DOC_ORDER else 12


@spec
def shift(p):
    return 0.3 if p == 'high' else (0.5 if p == 'medium' else (0.7 if p == 'low' else 0.1))


@spec
def eff_priority(fb):
    p = 'medium' if fb.priority is None else DOC_ALIASES.get(lower(fb.priority), lower(fb.priority))
    return p


@spec
def eff_category(fb):
    return 'uncategorized' if fb.category is None else lower(fb.category)


@spec
def key(fb):
    """rank re-ranked by a category-valued priority, shifted by high/medium/low"""
    return (rank(eff_priority(fb)) + 0.5) if eff_priority(fb) in DOC_ORDER else (rank(eff_category(fb)) + shift(eff_priority(fb)))


@spec
def wf_prio_fields(fb):
    return (is_obj(fb) and (fb.category is None or is_str(fb.category))
            and (fb.priority is None or is_str(fb.priority)))


@target("pedal.resolvers.simple:priority_offset")
def priority_offset(priority):
    requires(is_str(priority))
    raises_nothing()
    ensures("value", result == shift(priority))
    ensures("strictly_inside_unit", 0 < real(result) and real(result) < 1)


@target("pedal.resolvers.simple:by_priority")
def by_priority(feedback):
    requires(wf_prio_fields(feedback))
    raises_nothing()
    ensures("key", result == key(feedback))
    witness(category=feedback.category, priority=feedback.priority)
