"""C16 (where the handle comes from): call()/evaluate() wrap THIS execution's value in a NEW proxy."""
from pyvc.dsl import *
from pedal.sandbox.sandbox import Sandbox

INSTANCE_CLASSES = [Sandbox]


@target("pedal.sandbox.sandbox:Sandbox._handle_result")
def _handle_result(self, target, context_id):
    requires(instance_of(self, Sandbox) and is_dict(self.data) and has_key(self.data, target) and has_attr(self, 'exception')
             and has_attr(self, 'result_proxy_class'))
    abstract("self.result_proxy_class", raises=None, label="proxy",
             ensures=[is_obj(result), fresh(result), eqv(result.value, arg0)])
    modifies(self.result, self.exception)
    raises_nothing()
    ensures("a_new_handle_on_this_result", implies(old(self.exception) is None and self.result_proxy_class is not None,
            fresh(result) and eqv(result.value, at(self.data, target)) and self.result is result))
    ensures("plain_value_without_a_proxy_class", implies(old(self.exception) is None and self.result_proxy_class is None,
            eqv(result, at(self.data, target)) and eqv(self.result, result)))
    ensures("a_failed_execution_hands_back_its_exception", implies(
        old(self.exception) is not None and self.result_proxy_class is not None,
        fresh(result) and eqv(result.value, old(self.exception)) and self.exception is result))
