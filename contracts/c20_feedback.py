"""C20: each feedback call is recorded once, truthfully.

`condition`, `_get_message`, `_get_else_message`, `_get_justification` are subclass-controlled:
abstract callees that return anything or raise any Exception."""
from pyvc.dsl import *
from pedal.core.feedback import Feedback
from pedal.core.report import Report
from pedal.core.formatting import Formatter

INSTANCE_CLASSES = [Feedback, Report]
CLASS_CONSTS = {Feedback: ['DEFAULT_FEEDBACK_MESSAGE', 'DEFAULT_ELSE_MESSAGE', 'DEFAULT_JUSTIFICATION_MESSAGE']}
TRUTH = {Feedback: 'fb_truth20'}


@spec
def fb_truth20(fb):
    return truthy(fb._met_condition)


@spec
def wf_report20(report):
    return (instance_of(report, Report) and is_list(report.feedback) and is_list(report.ignored_feedback)
            and report.feedback is not report.ignored_feedback)


@spec
def parent_ok(p):
    """what the documentation allows as a parent: nothing, a group number/name, or a feedback"""
    return p is None or is_int(p) or is_str(p) or instance_of(p, Feedback)


@target("pedal.core.report:Report.add_feedback")
def add_feedback(self, feedback):
    requires(wf_report20(self) and instance_of(feedback, Feedback) and parent_ok(feedback.parent))
    abstract("feedback.parent._get_child_feedback", raises=None)
    abstract("self.execute_hooks", raises=None)
    modifies(items(self.feedback))
    raises_nothing()
    ensures("appended_once", same_seq(items(self.feedback), old(items(self.feedback)) + [feedback]) and result is feedback)


@target("pedal.core.report:Report.add_ignored_feedback")
def add_ignored_feedback(self, feedback):
    requires(wf_report20(self) and instance_of(feedback, Feedback) and parent_ok(feedback.parent))
    abstract("feedback.parent._get_child_feedback", raises=None)
    modifies(items(self.ignored_feedback))
    raises_nothing()
    ensures("appended_once", same_seq(items(self.ignored_feedback), old(items(self.ignored_feedback)) + [feedback])
            and result is feedback)
    witness(parent=feedback.parent)


@target("pedal.core.feedback:Feedback._handle_condition")
def _handle_condition(self):
    requires(instance_of(self, Feedback) and wf_report20(self.report) and parent_ok(self.parent))
    requires(is_tuple(self._stored_args) and is_dict(self._stored_kwargs))
    abstract("self.condition", raises=Exception,
             ensures=[not is_obj(result) or (is_list(result) and result is not self.report.feedback
                                             and result is not self.report.ignored_feedback)])
    abstract("self._get_justification", raises=Exception)
    abstract("self._get_message", raises=Exception)
    abstract("self._get_else_message", raises=Exception)
    let(rep=self.report)
    modifies(items(rep.feedback), items(rep.ignored_feedback), self._exception, self._met_condition, self.justification,
             self.message, self.else_message, self.unused_message, self._status)
    raises_only(Exception)
    ensures("triggered_goes_to_feedback", implies(truthy(self._met_condition),
            same_seq(items(rep.feedback), old(items(rep.feedback)) + [self])
            and same_seq(items(rep.ignored_feedback), old(items(rep.ignored_feedback)))
            and self._status == 'active'))
    ensures("untriggered_goes_to_ignored", implies(not truthy(self._met_condition),
            same_seq(items(rep.ignored_feedback), old(items(rep.ignored_feedback)) + [self])
            and same_seq(items(rep.feedback), old(items(rep.feedback)))
            and self._status == 'inactive'))
    ensures("no_pending_exception", self._exception is None)
    ensures_raises("error_recorded_as_untriggered", Exception,
                   same_seq(items(rep.ignored_feedback), old(items(rep.ignored_feedback)) + [self])
                   and same_seq(items(rep.feedback), old(items(rep.feedback)))
                   and self._met_condition is False and self._status == 'error' and raised is self._exception)


@target("pedal.core.feedback:Feedback._get_message")
def _get_message(self):
    requires(instance_of(self, Feedback) and is_obj(self.report))
    requires(self.message is None or is_str(self.message))
    abstract("wrap_fields", raises=Exception)
    abstract("self.message_template.format", raises=Exception)
    raises_only(Exception)
    ensures("explicit_message_wins", implies(self.message is not None, result is self.message))
    ensures("default_text", implies(self.message is None and self.message_template is None,
                                    result == 'No feedback message provided'))


@target("pedal.core.formatting:chomp_spec")
def chomp_spec(format_spec, word):
    requires(is_str(format_spec) and is_str(word) and len(word) > 0)
    raises_nothing()
    ensures("a_string", is_str(result))
    ensures("no_suffix_no_change", implies(not format_spec.endswith(word), result == format_spec))
    ensures("suffix_removed", implies(format_spec.endswith(word) and not format_spec.endswith(':' + word),
                                      result + word == format_spec))
    ensures("suffix_and_colon_removed", implies(format_spec.endswith(':' + word), result + ':' + word == format_spec))


# ---- a field of a message template is rendered by the report's formatter from the field's RAW value --------------

@target("pedal.core.formatting:FeedbackFieldWrapper.__format__")
def FeedbackFieldWrapper__format__(self, format_spec):
    requires(is_obj(self) and has_attr(self, '_wrapped_value') and is_obj(self._wrapped_formatter) and is_list(self._wrapped_formatter.available)
             and is_str(format_spec))
    requires(forall(lambda j: is_str(item(self._wrapped_formatter.available, j)) and len(item(self._wrapped_formatter.available, j)) > 0,
                    0, nitems(self._wrapped_formatter.available)))
    let(names=items(self._wrapped_formatter.available))
    abstract("getattr(self._wrapped_formatter, formatter_name)", raises=None, label="formatter_method",
             modifies=[ghost('formatted_value'), ghost('formatter_calls')],
             ensures=[eqv(ghost_val('formatted_value'), arg0), ghost('formatter_calls') == old(ghost('formatter_calls')) + 1,
                      is_str(result)])
    abstract("value.__format__", raises=None, label="final_format", modifies=[ghost('final_spec_value')],
             ensures=[eqv(ghost_val('final_spec_value'), arg0)])
    modifies(ghost('formatted_value'), ghost('formatter_calls'), ghost('final_spec_value'))
    raises_nothing()
    invariant(1, "no_earlier_name_ends_the_spec", is_str(format_spec) and format_spec == entry(format_spec) and is_str(value)
              and forall(lambda j: not format_spec.endswith(iterated[j]), 0, seen))
    ensures("formatter_gets_the_raw_value_once", implies(
        exists(lambda j: format_spec.endswith(names[j]), 0, seq_len(names)),
        ghost('formatter_calls') == old(ghost('formatter_calls')) + 1 and eqv(ghost_val('formatted_value'), self._wrapped_value)))
    ensures("no_formatter_name_no_call", implies(
        not exists(lambda j: format_spec.endswith(names[j]), 0, seq_len(names)),
        ghost('formatter_calls') == old(ghost('formatter_calls')) and eqv(ghost_val('final_spec_value'), format_spec)))
    ensures("rest_of_the_spec_is_applied_to_the_result", exists(
        lambda j: format_spec.endswith(names[j]) and forall(lambda i: not format_spec.endswith(names[i]), 0, j)
        and (ghost_val('final_spec_value') + names[j] == format_spec
             or ghost_val('final_spec_value') + ':' + names[j] == format_spec), 0, seq_len(names))
        or not exists(lambda j: format_spec.endswith(names[j]), 0, seq_len(names)))
