"""C13 (frame part): Report.clear() makes every piece of per-grading state of the report what a fresh
Report() has, tools are reset before first use, and the environment clears before it contextualises."""
from pyvc.dsl import *
from pedal.core.report import Report
from pedal.core.environment import Environment
from pedal.core.submission import Submission
from pedal.core.formatting import Formatter
from pedal.core.tool import ToolRegistration
from pedal.core.errors import PedalToolNotRegistered

INSTANCE_CLASSES = [Report, Environment, Submission, Formatter, ToolRegistration]


@spec
def wf_report(self):
    return (instance_of(self, Report) and is_list(self.feedback) and is_list(self.ignored_feedback)
            and is_dict(self.suppressions) and is_dict(self.suppressed_labels) and is_set(self.hiddens)
            and is_dict(self._tool_data) and is_list(self.groups) and is_dict(self.group_names) and is_dict(self.hooks)
            and is_list(self.resolves) and is_set(self.overridden_feedbacks)
            and distinct(self.feedback, self.ignored_feedback, self.groups, self.resolves, self.hiddens,
                         self.overridden_feedbacks)
            and distinct(self.suppressions, self.suppressed_labels, self._tool_data, self.group_names, self.hooks))


@assumed("pedal.core.formatting:Formatter.__init__", "a formatter with no report attached")
def Formatter__init__(self, report=None):
    modifies(attrs(self))
    raises_nothing()


@assumed("pedal.core.report:Report.clear_overridden_feedback",
         "restores every overridden feedback class and empties the set (bounded stand-in B-feedback of C20)")
def clear_overridden_feedback(self):
    requires(is_set(self.overridden_feedbacks))
    modifies(items(self.overridden_feedbacks), class_attr_of_any('*'))
    raises_nothing()
    ensures(nitems(self.overridden_feedbacks) == 0)


@target("pedal.core.report:Report.clear")
def clear(self):
    requires(wf_report(self))
    modifies(items(self.feedback), items(self.ignored_feedback), mapping(self.suppressions), mapping(self.suppressed_labels),
             items(self.hiddens), mapping(self._tool_data), self.group, items(self.groups), mapping(self.group_names),
             mapping(self.hooks), self.submission, self.result, items(self.resolves), self.pools, self.chosen_pool,
             self.format, items(self.overridden_feedbacks), class_attr_of_any('*'))
    raises_nothing()
    ensures("feedback_lists_empty", nitems(self.feedback) == 0 and nitems(self.ignored_feedback) == 0)
    ensures("suppressions_empty", nkeys(self.suppressions) == 0 and nkeys(self.suppressed_labels) == 0
            and nitems(self.hiddens) == 0)
    ensures("tool_data_empty", nkeys(self._tool_data) == 0)
    ensures("groups_and_hooks_empty", self.group is None and nitems(self.groups) == 0 and nkeys(self.group_names) == 0
            and nkeys(self.hooks) == 0)
    ensures("no_submission_no_result", self.submission is None and self.result is None and nitems(self.resolves) == 0)
    ensures("no_pools", is_list(self.pools) and nitems(self.pools) == 0 and self.chosen_pool is None)
    ensures("fresh_formatter", exact_instance(self.format, Formatter) and fresh(self.format))
    ensures("no_overridden_classes_left", nitems(self.overridden_feedbacks) == 0)


@target("pedal.types.new_types:reset_builtin_modules", captures=['BUILTIN_MODULES', '_MODULE_LOADERS'])
def reset_builtin_modules():
    """What TIFA knows about library modules is rebuilt from the loaders: no module type object that an earlier
    analysis may have mutated (a student's `math.pi = "3.14"` rewrites the shared ModuleType) survives a reset."""
    requires(is_dict(BUILTIN_MODULES) and is_dict(_MODULE_LOADERS) and BUILTIN_MODULES is not _MODULE_LOADERS)
    abstract("module_function", raises=None, ensures=[fresh(result)], label="loader")
    modifies(mapping(BUILTIN_MODULES))
    raises_nothing()
    invariant(1, "only_new_types", forall_val(lambda k: implies(has_key(BUILTIN_MODULES, k), fresh(at(BUILTIN_MODULES, k)))),
              modifies=[mapping(BUILTIN_MODULES)])
    invariant(1, "loaded_so_far", forall(lambda j: has_key(BUILTIN_MODULES, iterated[j][0]), 0, seen))
    ensures("every_module_type_is_new", forall_val(lambda k: implies(has_key(BUILTIN_MODULES, k),
                                                                     fresh(at(BUILTIN_MODULES, k)))))
