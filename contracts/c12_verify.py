"""C12: verify() reports a syntax error exactly when CPython's parser rejects the source.

ast.parse is an abstract callee: it returns a tree or raises an exception of any Exception class
(SyntaxError family, ValueError family such as UnicodeEncodeError, RecursionError, MemoryError were
all observed on CPython 3.12).  Feedback constructors count into ghost counters."""
from pyvc.dsl import *
from pedal.core.report import Report
from pedal.core.submission import Submission
import ast

INSTANCE_CLASSES = [Report, Submission]


@spec
def tool(report):
    return at(report._tool_data, 'source')


@assumed("pedal.core.report:Report.__getitem__", "tool data already initialised (reset-before-use is C13)")
def __getitem__(self, tool_name):
    requires(is_dict(self._tool_data) and has_key(self._tool_data, tool_name))
    raises_nothing()
    ensures(eqv(result, at(self._tool_data, tool_name)))


@target("pedal.source.source:verify")
def verify(code=None, filename=None, report=None, muted=False, enhance=True):
    requires(instance_of(report, Report) and is_dict(report._tool_data) and has_key(report._tool_data, 'source')
             and is_dict(tool(report)) and instance_of(report.submission, Submission)
             and has_attr(report.submission, 'load_error') and not truthy(report.submission.load_error))
    requires(is_str(code))
    abstract("ast.parse('')", raises=None, ensures=[is_obj(result)], label="ast.parse_empty")
    abstract("ast.parse", raises=(SyntaxError, ValueError, RecursionError, MemoryError), ensures=[is_obj(result)],
             label="ast.parse")
    abstract("blank_source", raises=None, modifies=[ghost('blank_feedback')],
             ensures=[ghost('blank_feedback') == old(ghost('blank_feedback')) + 1])
    abstract("syntax_error", raises=None, modifies=[ghost('syntax_feedback')],
             ensures=[ghost('syntax_feedback') == old(ghost('syntax_feedback')) + 1])
    abstract("indentation_error", raises=None, modifies=[ghost('syntax_feedback')],
             ensures=[ghost('syntax_feedback') == old(ghost('syntax_feedback')) + 1])
    abstract("sys.exc_info", raises=None)
    modifies(mapping(tool(report)), ghost('syntax_feedback'), ghost('blank_feedback'))
    raises_nothing()
    ensures("syntax_feedback_iff_parser_rejects",
            ghost('syntax_feedback') - old(ghost('syntax_feedback')) == ghost('raised_ast.parse') - old(ghost('raised_ast.parse')))
    ensures("success_flag", implies(ghost('raised_ast.parse') != old(ghost('raised_ast.parse')),
                                    at(tool(report), 'success') is False and result is False))
    ensures("accepted_source_is_stored", implies(ghost('raised_ast.parse') == old(ghost('raised_ast.parse')),
                                                 has_key(tool(report), 'ast') and is_obj(at(tool(report), 'ast'))))
    ensures("blank_is_reported", implies(strip(code) == '', ghost('blank_feedback') == old(ghost('blank_feedback')) + 1))
    ensures("nonblank_not_reported_blank", implies(strip(code) != '', ghost('blank_feedback') == old(ghost('blank_feedback'))))
