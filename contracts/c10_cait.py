"""C10 (kernel): the places where CAIT decides that a candidate pairing is kept.

metas_match is the field test of every shallow match; AstMap records exactly the pairing it is given
(and only CaitNodes); has_conflicts is the emptiness test of conflict_keys; map_merge keeps an extension
only if the merged map has no conflicting binding and the child's sibling index lies to the right of
the sibling already used by the base map (left-to-right order)."""
from pyvc.dsl import *
from pedal.cait.ast_map import AstMap, AstSymbol, AstSymbolList
from pedal.cait.cait_node import CaitNode
from pedal.cait.stretchy_tree_matching import StretchyTreeMatcher

INSTANCE_CLASSES = [AstMap, AstSymbol, AstSymbolList, CaitNode, StretchyTreeMatcher]


@target("pedal.cait.stretchy_tree_matching:StretchyTreeMatcher.metas_match")
def metas_match(ins_node, std_node, check_meta=True):
    requires(is_obj(ins_node) and is_obj(std_node) and has_attr(ins_node, 'field') and has_attr(std_node, 'field'))
    requires(is_str(ins_node.field) and is_str(std_node.field) and is_bool(check_meta))
    raises_nothing()
    ensures("field_test", truthy(result) == ((not bv(check_meta)) or ins_node.field == std_node.field
                                              or ins_node.field == "none"))


@spec
def wf_map(m):
    return (instance_of(m, AstMap) and is_dict(m.mappings) and is_dict(m.exp_table) and is_dict(m.symbol_table)
            and is_dict(m.func_table) and is_dict(m.class_table) and is_list(m.conflict_keys)
            and distinct(m.mappings, m.exp_table, m.symbol_table, m.func_table, m.class_table))


@target("pedal.cait.ast_map:AstMap.__init__")
def AstMap__init__(self):
    requires(instance_of(self, AstMap))
    modifies(attrs(self))
    raises_nothing()
    ensures("empty_map", wf_map(self) and nkeys(self.mappings) == 0 and nkeys(self.exp_table) == 0
            and nkeys(self.symbol_table) == 0 and nkeys(self.func_table) == 0 and nkeys(self.class_table) == 0
            and nitems(self.conflict_keys) == 0 and self.match_root is None)


@target("pedal.cait.ast_map:AstMap.has_conflicts")
def has_conflicts(self):
    requires(instance_of(self, AstMap) and is_list(self.conflict_keys))
    raises_nothing()
    ensures("conflict_iff_some_key_recorded", is_bool(result) and bv(result) == (nitems(self.conflict_keys) > 0))


@target("pedal.cait.ast_map:AstMap.add_node_pairing")
def add_node_pairing(self, ins_node, std_node):
    requires(wf_map(self))
    modifies(mapping(self.mappings))
    raises_only(TypeError)
    ensures_raises("only_cait_nodes", TypeError, not instance_of(std_node, CaitNode))
    ensures("student_nodes_only", instance_of(std_node, CaitNode))
    ensures("exactly_this_pair", at(self.mappings, ins_node) is std_node)
    ensures("other_pairs_kept", forall_val(lambda k: implies(k != ins_node, iff(has_key(self.mappings, k), old(has_key(self.mappings, k)))
                                                             and implies(old(has_key(self.mappings, k)),
                                                                         eqv(at(self.mappings, k), old(at(self.mappings, k)))))))


@target("pedal.cait.ast_map:AstMap.add_exp_to_sym_table")
def add_exp_to_sym_table(self, ins_node, std_node):
    requires(wf_map(self) and is_obj(ins_node) and has_attr(ins_node, 'astNode') and is_obj(ins_node.astNode)
             and has_attr(ins_node.astNode, 'id'))
    modifies(mapping(self.exp_table))
    raises_only(TypeError)
    ensures_raises("only_cait_nodes", TypeError, not instance_of(std_node, CaitNode))
    ensures("bound_to_exactly_this_subtree", at(self.exp_table, ins_node.astNode.id) is std_node)
    ensures("other_expressions_kept", forall_val(lambda k: implies(k != ins_node.astNode.id,
            iff(has_key(self.exp_table, k), old(has_key(self.exp_table, k)))
            and implies(old(has_key(self.exp_table, k)), eqv(at(self.exp_table, k), old(at(self.exp_table, k)))))))


@spec
def conflict_free(new_maps, new_sibs):
    return (is_list(new_maps) and is_list(new_sibs) and nitems(new_sibs) == nitems(new_maps)
            and forall(lambda k: is_obj(item(new_maps, k)) and is_list(item(new_maps, k).conflict_keys)
                       and item(new_maps, k).conflict_keys is not new_maps and item(new_maps, k).conflict_keys is not new_sibs
                       and nitems(item(new_maps, k).conflict_keys) == 0, 0, nitems(new_maps)))


@spec
def from_candidates(new_sibs, run_sibs):
    return forall(lambda k: exists(lambda j: item(new_sibs, k) == item(run_sibs, j), 0, nitems(run_sibs)), 0, nitems(new_sibs))


@spec
def to_the_right(new_sibs, base_sibs):
    return forall(lambda k: is_int(item(new_sibs, k))
                  and exists(lambda i: item(new_sibs, k) > item(base_sibs, i), 0, nitems(base_sibs)), 0, nitems(new_sibs))


@target("pedal.cait.stretchy_tree_matching:StretchyTreeMatcher.map_merge")
def map_merge(self, base_maps, base_sibs, run_maps, run_sibs):
    requires(is_list(base_maps) and is_list(base_sibs) and is_list(run_maps) and is_list(run_sibs))
    requires(nitems(base_maps) == nitems(base_sibs) and nitems(run_maps) == nitems(run_sibs))
    requires(forall(lambda i: is_int(item(base_sibs, i)), 0, nitems(base_sibs)))
    requires(forall(lambda i: is_int(item(run_sibs, i)), 0, nitems(run_sibs)))
    requires(forall(lambda i: instance_of(item(base_maps, i), AstMap), 0, nitems(base_maps)))
    requires(forall(lambda i: is_list(item(run_maps, i)), 0, nitems(run_maps)))
    abstract("baseMap.new_merged_map", raises=None, label="merged",
             ensures=[exact_instance(result, AstMap), fresh(result), is_list(result.conflict_keys), fresh(result.conflict_keys)])
    raises_nothing()
    invariant(1, "conflict_free", conflict_free(new_maps, new_sibs), modifies=[items(new_maps), items(new_sibs)])
    invariant(1, "from_candidates", from_candidates(new_sibs, run_sibs))
    invariant(1, "to_the_right", to_the_right(new_sibs, base_sibs))
    invariant(2, "conflict_free", conflict_free(new_maps, new_sibs), modifies=[items(new_maps), items(new_sibs)])
    invariant(2, "from_candidates", from_candidates(new_sibs, run_sibs))
    invariant(2, "to_the_right", to_the_right(new_sibs, base_sibs))
    invariant(3, "conflict_free", conflict_free(new_maps, new_sibs), modifies=[items(new_maps), items(new_sibs)])
    invariant(3, "from_candidates", from_candidates(new_sibs, run_sibs))
    invariant(3, "to_the_right", to_the_right(new_sibs, base_sibs))
    ensures("no_candidates_no_match", implies(nitems(run_maps) == 0, result is None))
    ensures("kept_maps_have_no_conflicting_binding", implies(result is not None, is_dict(result)
            and is_list(at(result, 'new_maps')) and nitems(at(result, 'new_maps')) > 0
            and forall(lambda k: nitems(item(at(result, 'new_maps'), k).conflict_keys) == 0, 0, nitems(at(result, 'new_maps')))))
    ensures("one_sibling_index_per_map", implies(result is not None, is_list(at(result, 'new_sibs'))
            and nitems(at(result, 'new_sibs')) == nitems(at(result, 'new_maps'))))
    ensures("left_to_right", implies(result is not None, forall(
        lambda k: exists(lambda j: item(at(result, 'new_sibs'), k) == item(run_sibs, j), 0, nitems(run_sibs))
        and exists(lambda i: item(at(result, 'new_sibs'), k) > item(base_sibs, i), 0, nitems(base_sibs)),
        0, nitems(at(result, 'new_sibs')))))
    ensures("youngest_is_first_candidate", implies(result is not None, at(result, 'youngest_sib') == item(run_sibs, 0)))


@spec
def maps_shape(maps):
    return forall(lambda k: is_obj(item(maps, k)) and is_list(item(maps, k).conflict_keys)
                  and item(maps, k).conflict_keys is not maps, 0, nitems(maps))


@spec
def maps_no_conflict(maps):
    return forall(lambda k: nitems(item(maps, k).conflict_keys) == 0, 0, nitems(maps))


@spec
def all_conflict_free(maps):
    return maps_shape(maps) and maps_no_conflict(maps)


@target("pedal.cait.stretchy_tree_matching:StretchyTreeMatcher.binflex_helper")
def binflex_helper(self, case_left, case_right, new_mappings, base_mappings, use_previous=None):
    """operand matches of a commutative operator are combined only into maps without a conflicting binding"""
    requires(is_list(case_left) and is_list(case_right) and is_list(new_mappings) and is_list(base_mappings))
    requires(distinct(case_left, new_mappings) and distinct(case_right, new_mappings) and distinct(base_mappings, new_mappings))
    requires(nitems(base_mappings) >= 1 and instance_of(item(base_mappings, 0), AstMap) and all_conflict_free(new_mappings))
    abstract("base_mappings[0].new_merged_map(use_previous).new_merged_map", raises=None, label="merged_left",
             ensures=[exact_instance(result, AstMap), fresh(result), is_list(result.conflict_keys), fresh(result.conflict_keys)])
    abstract("base_mappings[0].new_merged_map", raises=None, label="merged_base",
             ensures=[exact_instance(result, AstMap), fresh(result), is_list(result.conflict_keys), fresh(result.conflict_keys)])
    abstract("new_map.new_merged_map", raises=None, label="merged_both",
             ensures=[exact_instance(result, AstMap), fresh(result), is_list(result.conflict_keys), fresh(result.conflict_keys)])
    modifies(items(new_mappings))
    raises_nothing()
    invariant(1, "shape", is_list(new_mappings) and maps_shape(new_mappings)
              and nitems(new_mappings) >= entry(nitems(new_mappings)), modifies=[items(new_mappings)])
    invariant(1, "conflict_free", maps_no_conflict(new_mappings))
    invariant(2, "shape", is_list(new_mappings) and maps_shape(new_mappings)
              and nitems(new_mappings) >= entry(nitems(new_mappings)), modifies=[items(new_mappings)])
    invariant(2, "conflict_free", maps_no_conflict(new_mappings))
    ensures("only_conflict_free_maps_added", all_conflict_free(new_mappings))
    ensures("earlier_maps_kept", nitems(new_mappings) >= old(nitems(new_mappings)))
    ensures("one_side_unmatched_adds_nothing", implies(nitems(case_left) == 0 or nitems(case_right) == 0,
                                                       same_seq(items(new_mappings), old(items(new_mappings)))))


# ---- single binding of _name_ placeholders ---------------------------------------------------------------------
SEQUENCE_VIEW = {AstSymbolList: 'my_list'}


@target("pedal.cait.ast_map:AstSymbolList.__init__")
def AstSymbolList__init__(self):
    requires(instance_of(self, AstSymbolList))
    modifies(attrs(self))
    raises_nothing()
    ensures(is_list(self.my_list) and nitems(self.my_list) == 0 and fresh(self.my_list))


@target("pedal.cait.ast_map:AstSymbolList.append")
def AstSymbolList_append(self, item):
    requires(instance_of(self, AstSymbolList) and is_list(self.my_list))
    modifies(items(self.my_list))
    raises_nothing()
    ensures(same_seq(items(self.my_list), old(items(self.my_list)) + [item]))
