"""C03: score arithmetic.  `Score.parse` is an assumed contract over uninterpreted readings of
the string (inverted?, operator, value), validated by the bounded stand-in B-score."""
from pyvc.dsl import *
from pedal.core.scoring import Score

INSTANCE_CLASSES = [Score]


@spec
def wf_score(sc):
    return (exact_instance(sc, Score) and is_bool(sc.invert) and (sc.operator is None or is_str(sc.operator))
            and is_number(sc.value))


@spec
def additive(sc):
    """the operators the C03 statement covers: none, '+', '-'"""
    return sc.operator is None or sc.operator == '' or sc.operator == '+' or sc.operator == '-'


@spec
def signed_value(sc):
    """what an additive score adds: 0 when inverted, -value for '-', +value otherwise"""
    return 0.0 if bv(sc.invert) else ((0.0 - real(sc.value)) if sc.operator == '-' else real(sc.value))


@target("pedal.core.scoring:Score.add_to_current")
def add_to_current(self, current):
    requires(wf_score(self) and is_number(current))
    requires("additive_operator", additive(self))
    raises_nothing()
    ensures("adds_signed_value", is_number(result) and real(result) == real(current) + signed_value(self))
    witness(invert=self.invert, operator=self.operator, value=self.value, current=current)


@spec
def parsed_invert(s):
    return upred('score_invert', s)


@spec
def parsed_op(s):
    return ufun('score_op', s)


@spec
def parsed_value(s):
    return ufun_real('score_value', s)


@assumed("pedal.core.scoring:Score.parse", "regex parse; readings are uninterpreted, validated by bounded stand-in B-score")
def parse(cls, score):
    requires(is_str(score) and upred('score_parses', score))
    raises_nothing()
    ensures(exact_instance(result, Score) and fresh(result))
    ensures(eqv(result.invert, parsed_invert(score)))
    ensures(eqv(result.operator, parsed_op(score)) and (result.operator is None or is_str(result.operator)))
    ensures(is_float(result.value) and real(result.value) == parsed_value(score))


@spec
def contribution(x):
    """what one entry of the score list adds to the total"""
    return real(x) if is_number(x) else (
        0.0 if parsed_invert(x) else ((0.0 - parsed_value(x)) if parsed_op(x) == '-' else parsed_value(x)))


@spec
def wf_scores(L):
    return is_list(L) and forall(lambda j: is_number(item(L, j)) or
                                 (is_str(item(L, j)) and upred('score_parses', item(L, j))
                                  and (parsed_op(item(L, j)) is None or parsed_op(item(L, j)) == ''
                                       or parsed_op(item(L, j)) == '+' or parsed_op(item(L, j)) == '-')),
                                 0, nitems(L))


@spec
def score_total(seq, k):
    """sum of the contributions of the first k entries"""
    return seq_sum(contribution, seq, k)


@target("pedal.core.scoring:combine_scores")
def combine_scores(scores, invert_scores=None):
    requires(wf_scores(scores))
    requires(invert_scores is None)
    raises_nothing()
    invariant(1, "partial_sum", is_number(total) and real(total) == score_total(items(scores), seen))
    ensures("rounded_sum", is_number(result) and real(result) == (
        score_total(items(scores), nitems(scores)) if is_int(result)
        else round2(score_total(items(scores), nitems(scores)))))
    ensures("int_only_if_all_ints", implies(is_int(result), real(result) == score_total(items(scores), nitems(scores))))
