"""work in progress (not part of any check): Report.__getitem__ and Environment.__init__"""
from pyvc.dsl import *

@target("pedal.core.report:Report.__getitem__")
def __getitem__(self, tool_name):
    requires(instance_of(self, Report) and is_dict(self._tool_data))
    abstract("self.TOOLS[tool_name].reset", raises=Exception, modifies=[mapping(self._tool_data)],
             ensures=[has_key(self._tool_data, tool_name)], label="tool.reset")
    abstract("PedalToolNotRegistered", raises=None, ensures=[instance_of(result, PedalToolNotRegistered) and fresh(result)])
    abstract("self.TOOLS.keys", raises=None)
    modifies(mapping(self._tool_data))
    raises_only(Exception)
    ensures("initialised_data_is_returned_untouched", implies(old(has_key(self._tool_data, tool_name)),
            eqv(result, old(at(self._tool_data, tool_name))) and ghost('raised_tool.reset') == old(ghost('raised_tool.reset'))))
    ensures("result_is_the_tool_entry", eqv(result, at(self._tool_data, tool_name)))


@target("pedal.core.environment:Environment.__init__")
def Environment__init__(self, files=None, main_file='answer.py', main_code=None, user=None, assignment=None, course=None,
                        execution=None, instructor_file='instructor.py', report=None):
    requires(instance_of(self, Environment) and instance_of(report, Report))
    abstract("report.clear", raises=None, modifies=[ghost('cleared'), ghost('order')],
             ensures=[ghost('cleared') == old(ghost('cleared')) + 1, ghost('order') == old(ghost('order')) * 2])
    abstract("self.report.contextualize", raises=None, modifies=[ghost('contextualized'), ghost('order')],
             ensures=[ghost('contextualized') == old(ghost('contextualized')) + 1, ghost('order') == old(ghost('order')) * 2 + 1])
    abstract("Submission", raises=Exception, ensures=[is_obj(result)])
    abstract("self.load_main", raises=Exception)
    abstract("isinstance(files, Submission)", raises=None, ensures=[is_bool(result)], label="isinstance_submission")
    requires(ghost('order') == 1)
    modifies(attrs(self), ghost('cleared'), ghost('contextualized'), ghost('order'), dict_of_any())
    raises_only(Exception)
    ensures("cleared_once_contextualised_once", ghost('cleared') == old(ghost('cleared')) + 1
            and ghost('contextualized') == old(ghost('contextualized')) + 1)
    ensures("clear_comes_first", ghost('order') == 5)
    ensures_raises("cleared_even_when_construction_fails", Exception, ghost('cleared') == old(ghost('cleared')) + 1
                   and ghost('contextualized') == old(ghost('contextualized')))
