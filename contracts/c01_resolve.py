"""C01/C02/C03: what surrounds merge - construction of the final feedback, finalize, suppress.

Loaded together with c01_priority.py, c01_merge.py and c03_scoring.py."""
from pyvc.dsl import *
from pedal.core.feedback import Feedback
from pedal.core.final_feedback import FinalFeedback
from pedal.core.report import Report
from pedal.core.commands import set_correct

INSTANCE_CLASSES = [Feedback, FinalFeedback, Report]


@target("pedal.core.feedback:Feedback.__bool__")
def __bool__(self):
    requires(is_obj(self) and has_attr(self, '_met_condition'))
    raises_nothing()
    ensures("is_met_condition", is_bool(result) and bv(result) == fb_truth(self))


@target("pedal.core.final_feedback:FinalFeedback.__init__")
def __init__(self, correct=None, score=None, category=None, label=None, title=None, message=None, data=None,
             hide_correctness=None, suppressions=None, suppressed_labels=None, success=None):
    requires(exact_instance(self, FinalFeedback))
    modifies(attrs(self))
    raises_nothing()
    ensures("fields", eqv(self.correct, success if correct is None else correct) and eqv(self.success, self.correct)
            and eqv(self.category, category) and eqv(self.label, label) and eqv(self.title, title)
            and eqv(self.message, message) and eqv(self.suppressions, suppressions)
            and eqv(self.suppressed_labels, suppressed_labels) and eqv(self.score, score)
            and eqv(self.hide_correctness, hide_correctness) and eqv(self.data, data))
    ensures("fresh_empty_lists", is_list(self.considered) and is_list(self.systems) and is_list(self._scores)
            and is_list(self.positives) and is_list(self.instructions) and is_list(self.used)
            and fresh(self.considered) and fresh(self.systems) and fresh(self._scores) and fresh(self.positives)
            and fresh(self.instructions) and fresh(self.used)
            and distinct(self.considered, self.systems, self._scores, self.positives, self.instructions, self.used)
            and nitems(self.considered) == 0 and nitems(self._scores) == 0 and nitems(self.used) == 0
            and nitems(self.positives) == 0 and nitems(self.systems) == 0 and nitems(self.instructions) == 0)


@spec
def wf_report_suppressions(report):
    return (instance_of(report, Report) and is_dict(report.suppressions) and is_dict(report.suppressed_labels))


@target("pedal.core.final_feedback:set_correct_no_errors")
def set_correct_no_errors(report):
    requires(wf_report_suppressions(report))
    raises_nothing()
    ensures("default_result", exact_instance(result, FinalFeedback) and fresh(result)
            and result.correct is True and result.message is None and result.title is None
            and result.category == 'complete' and result.label == 'set_correct_no_errors'
            and eqv(result.suppressions, report.suppressions)
            and eqv(result.suppressed_labels, report.suppressed_labels))
    ensures("empty_lists", is_list(result.considered) and nitems(result.considered) == 0
            and is_list(result._scores) and nitems(result._scores) == 0
            and distinct(result.considered, result.systems, result._scores, result.positives, result.instructions,
                         result.used))


@spec
def hidden(self):
    """the instructor hid correctness (suppress('correct') / suppress('success'))"""
    return truthy(get(self.suppressions, 'correct', get(self.suppressions, 'success', False)))


@target("pedal.core.final_feedback:FinalFeedback.finalize")
def finalize(self):
    requires(exact_instance(self, FinalFeedback) and is_dict(self.suppressions) and wf_scores(self._scores)
             and opt_str(self.message) and opt_str(self.title) and opt_str(self.label) and opt_str(self.category)
             and opt_bool(self.correct))
    let(nothing_shown=self.message is None)
    modifies(self.title, self.message, self.hide_correctness, self.score, self.success, self.correct)
    raises_nothing()
    ensures("returns_self", result is self)
    ensures("default_text", implies(nothing_shown and (hidden(self) or not truthy(old(self.correct))), self.title == 'No Errors'
                                    and self.message == 'No errors reported.'))
    ensures("shown_text_kept", implies(not nothing_shown, self.message == old(self.message)
                                       and self.title == old(self.title)))
    ensures("correct_is_conjunction", self.correct is truthy(old(self.correct)))
    ensures("correct_when_nothing_shown", implies(nothing_shown and not hidden(self) and old(self.label) == 'set_correct_no_errors'
                                                  and old(self.category) == 'complete' and truthy(old(self.correct)),
                                                  self.correct is True and eqv(self.score, 1)
                                                  and self.title == 'Complete' and self.message == 'Great work!'))
    ensures("score_is_rounded_sum", implies(not nothing_shown, is_number(self.score) and (real(self.score) == score_total(items(self._scores), nitems(self._scores))
                                                    or real(self.score) == round2(score_total(items(self._scores), nitems(self._scores))))))
    ensures("success_is_correct", self.success is self.correct and is_bool(self.correct))
    witness(message=self.message, label=self.label, category=self.category, correct=self.correct)




# ---- the registry that merge() consults is written under the keys merge() looks up -------------------------------

@spec
def alias_of(cat):
    return ('syntax' if (cat == 'parser' or cat == 'verifier') else
            ('instructor' if cat == 'instructor' else ('algorithmic' if cat == 'analyzer' else cat)))


@target("pedal.core.report:Report.suppress")
def suppress(self, category=None, label=True, fields=None):
    """suppress(label=L) files the field set under exactly L (merge looks up feedback.label unchanged);
    suppress(category, label) files it under the lower-cased (aliased) category and the lower-cased label, which is
    what merge computes from the feedback's category and label"""
    requires(instance_of(self, Report) and wf_labels(self.suppressed_labels, self.suppressions)
             and wf_suppressions(self.suppressions, self.suppressed_labels) and self.suppressions is not self.suppressed_labels)
    requires((category is None or is_str(category)) and (label is True or is_str(label)) and (fields is None or is_dict(fields)))
    requires(forall_val(lambda c: implies(has_key(self.suppressions, c), at(self.suppressions, c) is not self.suppressed_labels)))
    modifies(mapping(self.suppressed_labels), mapping(self.suppressions), dict_of_any(), items_of_any())
    raises_nothing()
    ensures("label_only_key_is_the_label_itself", implies(category is None,
            has_key(self.suppressed_labels, label) and is_list(at(self.suppressed_labels, label))
            and nitems(at(self.suppressed_labels, label)) >= 1
            and implies(fields is not None,
                        item(at(self.suppressed_labels, label), nitems(at(self.suppressed_labels, label)) - 1) is fields)))
    ensures("category_key_is_lowercased_and_aliased", implies(category is not None,
            has_key(self.suppressions, alias_of(lower(category)))
            and has_key(at(self.suppressions, alias_of(lower(category))), (lower(label) if is_str(label) else label))))
    ensures("category_entry_holds_the_field_set", implies(category is not None and fields is not None,
            item(at(at(self.suppressions, alias_of(lower(category))), (lower(label) if is_str(label) else label)),
                 nitems(at(at(self.suppressions, alias_of(lower(category))), (lower(label) if is_str(label) else label))) - 1)
            is fields))
