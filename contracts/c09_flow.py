"""C09 (kernel): the three-valued read/set/overwritten lattice of TIFA's flow analysis.

yes/no/maybe is a flat lattice: the join of two branch outcomes is the common value if they agree and
'maybe' otherwise; a name absent on the other path counts as 'no' there."""
from pyvc.dsl import *
from pedal.tifa.state import State
from pedal.tifa.tifa_core import TifaCore

INSTANCE_CLASSES = [State, TifaCore]


@spec
def rso(x):
    return x == 'yes' or x == 'no' or x == 'maybe'


@spec
def lub(a, b):
    return a if a == b else 'maybe'


@target("pedal.tifa.tifa_core:TifaCore.match_rso")
def match_rso(left, right):
    requires(is_str(left) and is_str(right))
    raises_nothing()
    ensures("flat_lattice_join", result == lub(left, right))
    ensures("closed", implies(rso(left) and rso(right), rso(result)))
    ensures("commutative", result == lub(right, left))


@target("pedal.tifa.state:State.__init__")
def State__init__(self, name, trace, type, method, position, read='maybe', set='maybe', over='maybe', over_position=None):
    requires(instance_of(self, State))
    modifies(attrs(self))
    raises_nothing()
    ensures("fields_stored", eqv(self.name, name) and eqv(self.trace, trace) and eqv(self.type, type)
            and eqv(self.read, read) and eqv(self.set, set) and eqv(self.over, over)
            and eqv(self.over_position, over_position) and eqv(self.method, method) and eqv(self.position, position))


@spec
def wf_state(s):
    return (instance_of(s, State) and is_str(s.read) and is_str(s.set) and is_str(s.over) and rso(s.read) and rso(s.set)
            and rso(s.over) and has_attr(s, 'name') and has_attr(s, 'type') and has_attr(s, 'over_position')
            and has_attr(s, 'trace'))


@target("pedal.tifa.state:State.copy")
def copy(self, method, position):
    requires(wf_state(self))
    raises_nothing()
    ensures("same_flags_new_object", exact_instance(result, State) and fresh(result) and eqv(result.read, self.read)
            and eqv(result.set, self.set) and eqv(result.over, self.over) and eqv(result.name, self.name)
            and eqv(result.type, self.type) and eqv(result.method, method))
    ensures("history_kept", is_list(result.trace) and nitems(result.trace) == 1 and item(result.trace, 0) is self)


@target("pedal.tifa.tifa_core:TifaCore.trace_state")
def trace_state(state, method, position):
    requires(wf_state(state))
    raises_nothing()
    ensures("copy_with_method", exact_instance(result, State) and fresh(result) and eqv(result.read, state.read)
            and eqv(result.set, state.set) and eqv(result.over, state.over) and eqv(result.method, method))


@target("pedal.tifa.tifa_core:TifaCore.combine_states")
def combine_states(self, left, right):
    requires(instance_of(self, TifaCore) and wf_state(left) and (right is None or wf_state(right)))
    abstract("self.locate", raises=None)
    abstract("is_subtype", raises=None, ensures=[is_bool(result)])
    abstract("type_changes", raises=None)
    abstract("self._issue", raises=None)
    raises_nothing()
    ensures("new_state", exact_instance(result, State) and fresh(result) and eqv(result.name, left.name))
    ensures("absent_on_the_other_path_counts_as_no", implies(right is None,
            result.read == lub(left.read, 'no') and result.set == lub(left.set, 'no') and result.over == lub(left.over, 'no')))
    ensures("both_paths_are_joined", implies(right is not None,
            result.read == lub(left.read, right.read) and result.set == lub(left.set, right.set)
            and result.over == lub(left.over, right.over)))
    ensures("stays_in_the_lattice", rso(result.read) and rso(result.set) and rso(result.over))
