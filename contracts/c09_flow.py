"""C09 (kernel): the three-valued read/set/overwritten lattice of TIFA's flow analysis.

yes/no/maybe is a flat lattice: the join of two branch outcomes is the common value if they agree and
'maybe' otherwise; a name absent on the other path counts as 'no' there."""
from pyvc.dsl import *
from pedal.tifa.state import State
from pedal.tifa.tifa_core import TifaCore

INSTANCE_CLASSES = [State, TifaCore]


@spec
def rso(x):
    return x == 'yes' or x == 'no' or x == 'maybe'


@spec
def lub(a, b):
    return a if a == b else 'maybe'


@target("pedal.tifa.tifa_core:TifaCore.match_rso")
def match_rso(left, right):
    requires(is_str(left) and is_str(right))
    raises_nothing()
    ensures("flat_lattice_join", result == lub(left, right))
    ensures("closed", implies(rso(left) and rso(right), rso(result)))
    ensures("commutative", result == lub(right, left))


@target("pedal.tifa.state:State.__init__")
def State__init__(self, name, trace, type, method, position, read='maybe', set='maybe', over='maybe', over_position=None):
    requires(instance_of(self, State))
    modifies(attrs(self))
    raises_nothing()
    ensures("fields_stored", eqv(self.name, name) and eqv(self.trace, trace) and eqv(self.type, type)
            and eqv(self.read, read) and eqv(self.set, set) and eqv(self.over, over)
            and eqv(self.over_position, over_position) and eqv(self.method, method) and eqv(self.position, position))


@spec
def wf_state(s):
    return (instance_of(s, State) and is_str(s.read) and is_str(s.set) and is_str(s.over) and rso(s.read) and rso(s.set)
            and rso(s.over) and has_attr(s, 'name') and has_attr(s, 'type') and has_attr(s, 'over_position')
            and has_attr(s, 'trace') and has_attr(s, 'position') and has_attr(s, 'method'))


@target("pedal.tifa.state:State.copy")
def copy(self, method, position):
    requires(wf_state(self))
    raises_nothing()
    ensures("same_flags_new_object", exact_instance(result, State) and fresh(result) and eqv(result.read, self.read)
            and eqv(result.set, self.set) and eqv(result.over, self.over) and eqv(result.name, self.name)
            and eqv(result.type, self.type) and eqv(result.method, method))
    ensures("history_kept", is_list(result.trace) and nitems(result.trace) == 1 and item(result.trace, 0) is self)


@target("pedal.tifa.tifa_core:TifaCore.trace_state")
def trace_state(state, method, position):
    requires(wf_state(state))
    raises_nothing()
    ensures("copy_with_method", exact_instance(result, State) and fresh(result) and eqv(result.read, state.read)
            and eqv(result.set, state.set) and eqv(result.over, state.over) and eqv(result.method, method))


@target("pedal.tifa.tifa_core:TifaCore.combine_states")
def combine_states(self, left, right):
    requires(instance_of(self, TifaCore) and wf_state(left) and (right is None or wf_state(right)))
    abstract("self.locate", raises=None)
    abstract("is_subtype", raises=None, ensures=[is_bool(result)])
    abstract("type_changes", raises=None)
    abstract("self._issue", raises=None)
    raises_nothing()
    ensures("new_state", exact_instance(result, State) and fresh(result) and eqv(result.name, left.name))
    ensures("absent_on_the_other_path_counts_as_no", implies(right is None,
            result.read == lub(left.read, 'no') and result.set == lub(left.set, 'no') and result.over == lub(left.over, 'no')))
    ensures("both_paths_are_joined", implies(right is not None,
            result.read == lub(left.read, right.read) and result.set == lub(left.set, right.set)
            and result.over == lub(left.over, right.over)))
    ensures("stays_in_the_lattice", rso(result.read) and rso(result.set) and rso(result.over))


# ---- the diagnosis rules themselves --------------------------------------------------------------------------
# find_variable_scope / find_variable_out_of_scope (the scope walk) are abstract callees: they hand back an
# Identifier; what is decided here is what is reported, and which flags the new state gets, as a function of that
# Identifier's three-valued flags.

@spec
def wf_identifier(v):
    return (is_obj(v) and is_bool(v.exists) and is_bool(v.in_scope) and has_attr(v, 'scoped_name')
            and implies(bv(v.exists), wf_state(v.state) and is_str(v.scoped_name)))


@spec
def wf_core(self):
    return (instance_of(self, TifaCore) and has_attr(self, 'report') and is_list(self.path_chain) and nitems(self.path_chain) >= 1
            and is_dict(self.name_map) and has_key(self.name_map, item(self.path_chain, 0))
            and is_dict(at(self.name_map, item(self.path_chain, 0))) and is_dict(self.loop_usages)
            and is_list(self.scope_chain) and nitems(self.scope_chain) >= 1 and is_dict(self.class_scopes)
            and distinct(self.name_map, self.loop_usages, self.class_scopes, at(self.name_map, item(self.path_chain, 0)))
            and forall_val(lambda k: implies(has_key(self.loop_usages, k), is_list(at(self.loop_usages, k))))
            and forall_val(lambda k: implies(has_key(self.class_scopes, k), is_obj(at(self.class_scopes, k)))))


@target("pedal.tifa.tifa_core:TifaCore.load_variable")
def load_variable(self, name, position=None):
    requires(wf_core(self) and is_str(name))
    abstract("self._scope_chain_str", raises=None, ensures=[is_str(result)])
    abstract("self.find_variable_scope", raises=None, label="scope_lookup",
             ensures=[wf_identifier(result), eqv(result, ghost_val('found_value'))])
    abstract("self.find_variable_out_of_scope", raises=None, label="elsewhere_lookup",
             ensures=[is_obj(result), is_bool(result.exists), eqv(result, ghost_val('elsewhere_value'))])
    abstract("self.locate", raises=None)
    abstract("AnyType", raises=None)
    abstract("read_out_of_scope", raises=None, modifies=[ghost('issued_out_of_scope')],
             ensures=[ghost('issued_out_of_scope') == old(ghost('issued_out_of_scope')) + 1])
    abstract("initialization_problem", raises=None, modifies=[ghost('issued_initialization')],
             ensures=[ghost('issued_initialization') == old(ghost('issued_initialization')) + 1])
    abstract("possible_initialization_problem", raises=None, modifies=[ghost('issued_possible')],
             ensures=[ghost('issued_possible') == old(ghost('issued_possible')) + 1])
    abstract("self._issue", raises=None)
    let(found=ghost_val('found_value'))
    let(elsewhere=ghost_val('elsewhere_value'))
    modifies(mapping(at(self.name_map, item(self.path_chain, 0))), mapping(self.loop_usages), items_of_any(),
             ghost('issued_out_of_scope'), ghost('issued_initialization'), ghost('issued_possible'))
    raises_nothing()
    ensures("the_read_is_recorded", exact_instance(result, State) and fresh(result) and result.read == 'yes')
    ensures("initialization_problem_iff_no_path_assigned", ghost('issued_initialization') == old(ghost('issued_initialization')) + (
        1 if ((not bv(found.exists) and not bv(elsewhere.exists)) or (bv(found.exists) and found.state.set == 'no')) else 0))
    ensures("possible_problem_iff_some_paths_assigned", ghost('issued_possible') == old(ghost('issued_possible')) + (
        1 if (bv(found.exists) and found.state.set == 'maybe' and name != '*return') else 0))
    ensures("out_of_scope_read_iff_only_defined_elsewhere", ghost('issued_out_of_scope') == old(ghost('issued_out_of_scope')) + (
        1 if (not bv(found.exists) and bv(elsewhere.exists)) else 0))
    ensures("assigned_on_every_path_is_silent", implies(bv(found.exists) and found.state.set == 'yes',
            ghost('issued_initialization') == old(ghost('issued_initialization'))
            and ghost('issued_possible') == old(ghost('issued_possible'))
            and ghost('issued_out_of_scope') == old(ghost('issued_out_of_scope'))))
    ensures("set_flag_carried", implies(bv(found.exists), result.set == found.state.set and result.over == found.state.over))
    ensures("unknown_name_becomes_unassigned_but_read", implies(not bv(found.exists), result.set == 'no' and result.over == 'no'))


@target("pedal.tifa.tifa_core:TifaCore.store_variable")
def store_variable(self, name, store_type, position=None, force_create=False):
    requires(wf_core(self) and is_str(name) and is_bool(force_create))
    abstract("self._scope_chain_str", raises=None, ensures=[is_str(result)])
    abstract("self.find_variable_scope", raises=None, label="scope_lookup",
             ensures=[wf_identifier(result), eqv(result, ghost_val('found_value'))])
    abstract("self.locate", raises=None)
    abstract("self._in_module", raises=None, ensures=[is_bool(result)])
    abstract("is_subtype", raises=None, ensures=[is_bool(result)])
    abstract("write_out_of_scope", raises=None)
    abstract("type_changes", raises=None)
    abstract("self._issue", raises=None)
    abstract("self.class_scopes[current_scope].add_attr", raises=None, label="class_attr")
    let(found=ghost_val('found_value'))
    modifies(mapping(at(self.name_map, item(self.path_chain, 0))))
    raises_nothing()
    ensures("a_state_is_stored", exact_instance(result, State) and fresh(result) and eqv(result.type, store_type))
    ensures("new_variable_is_set_and_unread", implies(not bv(found.exists) or bv(force_create),
            result.set == 'yes' and result.read == 'no' and result.over == 'no'))
    ensures("assigned_and_never_read_is_overwritten", implies(
        bv(found.exists) and not bv(force_create) and found.state.set == 'yes' and found.state.read == 'no',
        result.over == 'yes' and result.set == 'yes' and result.read == 'no'))
    ensures("otherwise_set_again_and_unread", implies(
        bv(found.exists) and not bv(force_create) and not (found.state.set == 'yes' and found.state.read == 'no'),
        result.set == 'yes' and result.read == 'no' and result.over == found.state.over))


@spec
def in_scope_state(self, k, path_id):
    return has_key(at(self.name_map, path_id), k) and upred('in_scope', k)


@target("pedal.tifa.tifa_core:TifaCore._finish_scope")
def _finish_scope(self):
    """unused / overwritten are reported from the flags alone: unused iff read == 'no' (and the name is not `_`),
    overwritten iff over == 'yes' - for every name of the scope, and nothing else is reported"""
    requires(wf_core(self))
    let(names=at(self.name_map, item(self.path_chain, 0)))
    requires(forall_val(lambda k: implies(has_key(names, k), wf_state(at(names, k)) and is_str(at(names, k).name))))
    abstract("self.in_scope", raises=None, label="in_scope", ensures=[is_bool(result), bv(result) == upred('in_scope', arg0)])
    abstract("overwritten_variable", raises=None, modifies=[ghost('issued_overwritten')],
             ensures=[ghost('issued_overwritten') == old(ghost('issued_overwritten')) + 1])
    abstract("unused_variable", raises=None, modifies=[ghost('issued_unused')],
             ensures=[ghost('issued_unused') == old(ghost('issued_unused')) + 1])
    abstract("self._issue", raises=None)
    define(count_def('unused', lambda j: upred('in_scope', key_at(names, j)) and at(names, key_at(names, j)).read == 'no'
                     and at(names, key_at(names, j)).name != '_'))
    define(count_def('overwritten', lambda j: upred('in_scope', key_at(names, j)) and at(names, key_at(names, j)).over == 'yes'))
    modifies(ghost('issued_overwritten'), ghost('issued_unused'))
    raises_nothing()
    invariant(1, "one_report_per_unread_name", ghost('issued_unused') == entry(ghost('issued_unused')) + count_at('unused', seen),
              modifies=[ghost('issued_unused'), ghost('issued_overwritten')])
    invariant(1, "one_report_per_overwritten_name",
              ghost('issued_overwritten') == entry(ghost('issued_overwritten')) + count_at('overwritten', seen))
    ensures("unused_reports_match_the_flags", ghost('issued_unused') == old(ghost('issued_unused')) + count_at('unused', nkeys(names)))
    ensures("overwritten_reports_match_the_flags",
            ghost('issued_overwritten') == old(ghost('issued_overwritten')) + count_at('overwritten', nkeys(names)))
