"""C17: sections split a submission losslessly; asking past the end is a feedback, not an error.

sections = [code0, marker1, code1, ..., marker_k, code_k] (what re.split with one capturing group
returns); the section index advances by 2."""
from pyvc.dsl import *
from pedal.core.report import Report
from pedal.core.submission import Submission
from pedal.source.substitutions import Substitution
from pedal.source.sections import FeedbackSourceSection
from pedal.source.feedbacks import not_enough_sections
from pedal.tifa.tifa_core import TifaCore
from pedal.core.location import Location

INSTANCE_CLASSES = [Report, Submission, Substitution, FeedbackSourceSection, TifaCore, Location]
PROPERTY_GET = {Submission: {'main_code': 'submission_main_code'}}


@spec
def submission_main_code(self):
    return get(self.files, self.main_file, "")


@spec
def count_newlines(text, following):
    """line breaks of `text` as the Python parser counts them: \\n, \\r\\n and a lone \\r; a \\r\\n whose \\n is the
    first character of `following` is one break, not two (str_count stands for str.count)"""
    return str_count(text, "\n") + str_count(text, "\r") - str_count(text + following[:1], "\r\n")


@spec
def wf_submission(sub):
    return (instance_of(sub, Submission) and is_dict(sub.files) and is_str(sub.main_file) and is_dict(sub.line_offsets)
            and sub.files is not sub.line_offsets)


@spec
def source_data(report):
    return at(report._tool_data, 'source')


@spec
def wf_sectioned(report):
    """the report's source tool after separate_into_sections"""
    return (instance_of(report, Report) and is_dict(report._tool_data) and has_key(report._tool_data, 'source')
            and is_dict(source_data(report)) and wf_submission(report.submission) and is_list(report.groups)
            and has_key(source_data(report), 'section') and is_int(at(source_data(report), 'section'))
            and at(source_data(report), 'section') >= 0 and at(source_data(report), 'section') % 2 == 0
            and has_key(source_data(report), 'sections') and is_list(at(source_data(report), 'sections'))
            and nitems(at(source_data(report), 'sections')) % 2 == 1
            and forall(lambda j: is_str(item(at(source_data(report), 'sections'), j)), 0,
                       nitems(at(source_data(report), 'sections')))
            and has_key(source_data(report), 'independent') and not is_obj(at(source_data(report), 'independent'))
            and has_key(source_data(report), 'section_group')
            and has_key(source_data(report), 'substitutions') and is_list(at(source_data(report), 'substitutions'))
            and nitems(at(source_data(report), 'substitutions')) >= 1
            and forall(lambda j: instance_of(item(at(source_data(report), 'substitutions'), j), Substitution)
                       and is_str(item(at(source_data(report), 'substitutions'), j).code)
                       and is_str(item(at(source_data(report), 'substitutions'), j).filename),
                       0, nitems(at(source_data(report), 'substitutions')))
            and distinct(at(source_data(report), 'sections'), at(source_data(report), 'substitutions'), report.groups)
            and distinct(source_data(report), report._tool_data, report.submission.files, report.submission.line_offsets))


@target("pedal.source.sections:_calculate_section_number")
def _calculate_section_number(section_index):
    requires(is_int(section_index) and section_index >= 0)
    raises_nothing()
    ensures("half_rounded_up", is_int(result) and (result == (section_index + 1) // 2))


@assumed("pedal.core.report:Report.__getitem__", "tool data already initialised (reset-before-use is C13)")
def __getitem__(self, tool_name):
    requires(is_dict(self._tool_data) and has_key(self._tool_data, tool_name))
    raises_nothing()
    ensures(eqv(result, at(self._tool_data, tool_name)))


@assumed("pedal.core.report:Report.execute_hooks", "hooks leave the source tool data, the submission and the groups alone")
def execute_hooks(self, tool, event_name, arguments=None, keyword_arguments=None):
    raises_nothing()


@assumed("pedal.core.report:Report.stop_group", "removes the group from report.groups")
def stop_group(self, group):
    requires(is_list(self.groups))
    modifies(items(self.groups))
    raises_nothing()


@assumed("pedal.core.report:Report.start_group", "appends the group to report.groups")
def start_group(self, group):
    requires(is_list(self.groups))
    modifies(items(self.groups))
    raises_nothing()


@assumed("pedal.core.submission:Submission.replace_main", "property setter semantics; checked by the bounded stand-in B-sections")
def replace_main(self, code, file=None):
    requires(wf_submission(self) and is_str(code) and (file is None or is_str(file)))
    modifies(mapping(self.files), self.main_file)
    raises_nothing()
    ensures(eqv(self.main_file, old(self.main_file) if file is None else file))
    ensures(at(self.files, self.main_file) == code)
    ensures(is_str(self.main_file))


@target("pedal.core.submission:Submission.set_line_offset")
def set_line_offset(self, lineno, filename=None):
    requires(wf_submission(self))
    modifies(mapping(self.line_offsets))
    raises_nothing()
    ensures("offset_recorded", eqv(at(self.line_offsets, self.main_file if filename is None else filename), lineno))


@target("pedal.core.submission:Submission.clear_line_offsets")
def clear_line_offsets(self):
    requires(wf_submission(self))
    modifies(mapping(self.line_offsets))
    raises_nothing()
    ensures("no_offsets", nkeys(self.line_offsets) == 0)


@assumed("pedal.source.sections:FeedbackSourceSection.__init__", "group feedback object; Feedback.__init__ is C20")
def FeedbackSourceSection__init__(self, section_number, **kwargs):
    modifies(attrs(self))
    raises_nothing()


@assumed("pedal.source.feedbacks:not_enough_sections.__init__",
         "attaches exactly one not_enough_sections feedback (ghost counter); Feedback.__init__ is C20")
def not_enough_sections__init__(self, section_number, found, **kwargs):
    modifies(attrs(self), ghost('not_enough_sections'))
    raises_nothing()
    ensures(ghost('not_enough_sections') == old(ghost('not_enough_sections')) + 1)


@target("pedal.source.sections:next_section")
def next_section(name="", report=None):
    requires(wf_sectioned(report))
    let(src=source_data(report))
    let(S=items(at(src, 'sections')))
    let(i=at(src, 'section') + 2)
    let(top=item(at(src, 'substitutions'), nitems(at(src, 'substitutions')) - 1))
    let(independent=truthy(at(src, 'independent')))
    modifies(mapping(src), items(report.groups), mapping(report.submission.files), report.submission.main_file,
             mapping(report.submission.line_offsets), ghost('not_enough_sections'))
    raises_nothing()
    ensures("index_advances", at(src, 'section') == i)
    ensures("independent_section_is_the_chunk", implies(i < seq_len(S) and independent,
            report.submission.main_code == S[i]
            and eqv(at(report.submission.line_offsets, report.submission.main_file),
                    count_newlines(join("", prefix(S, i)), S[i]))))
    ensures("cumulative_section_is_the_prefix", implies(i < seq_len(S) and not independent,
            report.submission.main_code == join("", prefix(S, i + 1))))
    ensures("past_the_end_is_reported", implies(i >= seq_len(S),
            ghost('not_enough_sections') == old(ghost('not_enough_sections')) + 1))
    ensures("no_feedback_otherwise", implies(i < seq_len(S),
            ghost('not_enough_sections') == old(ghost('not_enough_sections'))))
    witness(section=at(source_data(report), 'section'), n_sections=nitems(at(source_data(report), 'sections')),
            independent=at(source_data(report), 'independent'))


@target("pedal.source.sections:stop_sections")
def stop_sections(report=None):
    requires(wf_sectioned(report))
    let(src=source_data(report))
    let(top=item(at(src, 'substitutions'), nitems(at(src, 'substitutions')) - 1))
    modifies(mapping(src), items(at(src, 'substitutions')), items(report.groups), mapping(report.submission.files),
             report.submission.main_file, mapping(report.submission.line_offsets))
    raises_nothing()
    ensures("original_text_restored", report.submission.main_code == old(top.code)
            and report.submission.main_file == old(top.filename))
    ensures("whole_file_lines_are_not_shifted", eqv(at(report.submission.line_offsets, report.submission.main_file), 0))
    ensures("stack_shrinks", nitems(at(src, 'substitutions')) == old(nitems(at(src, 'substitutions'))) - 1)
    ensures("group_closed", at(src, 'section_group') is None)


@target("pedal.source.sections:stop_any_sections")
def stop_any_sections(report=None):
    requires(instance_of(report, Report) and is_dict(report._tool_data) and has_key(report._tool_data, 'source')
             and is_dict(source_data(report)) and has_key(source_data(report), 'substitutions')
             and is_list(at(source_data(report), 'substitutions')))
    requires(implies(nitems(at(source_data(report), 'substitutions')) > 0, wf_sectioned(report)))
    let(src=source_data(report))
    let(active=nitems(at(src, 'substitutions')) > 0)
    let(top=item(at(src, 'substitutions'), nitems(at(src, 'substitutions')) - 1))
    modifies(mapping(src), items(at(src, 'substitutions')), items(report.groups), mapping(report.submission.files),
             report.submission.main_file, mapping(report.submission.line_offsets))
    raises_nothing()
    ensures("original_text_restored_whenever_sections_are_active", implies(active,
            report.submission.main_code == old(top.code) and report.submission.main_file == old(top.filename)
            and nitems(at(src, 'substitutions')) == old(nitems(at(src, 'substitutions'))) - 1))


@spec
def wf_ast_node(node):
    return is_obj(node) and is_int(node.lineno) and has_attr(node, 'col_offset')


@assumed("pedal.core.location:Location.__init__", "plain data holder (dataclass-style constructor)")
def Location__init__(self, line, col=None, end_line=None, end_col=None, filename=None):
    modifies(attrs(self))
    raises_nothing()
    ensures(eqv(self.line, line) and eqv(self.col, col))


@target("pedal.tifa.tifa_core:TifaCore.locate")
def locate(self, node=None):
    requires(instance_of(self, TifaCore) and is_int(self.line_offset) and is_list(self.node_chain))
    requires(node is None or wf_ast_node(node))
    requires(forall(lambda j: wf_ast_node(item(self.node_chain, j)), 0, nitems(self.node_chain)))
    requires(implies(nitems(self.node_chain) == 0, wf_ast_node(self.final_node)))
    let(where=node if node is not None else (item(self.node_chain, nitems(self.node_chain) - 1)
                                             if nitems(self.node_chain) > 0 else self.final_node))
    raises_nothing()
    ensures("whole_file_line", exact_instance(result, Location) and fresh(result)
            and result.line == where.lineno + self.line_offset)
