"""C08: ensure_*/prevent_* thresholds and the node finders they rest on.

Top-level clauses typed from the C08 statement: ensure fires <=> count < at_least;
prevent fires <=> count > at_most; finders return exactly the matching nodes."""
from pyvc.dsl import *
from pedal.assertions.static import (EnsureAssertionFeedback, PreventAssertionFeedback, prevent_function_call,
                                     ensure_function_call, prevent_operation, ensure_operation, prevent_ast,
                                     ensure_ast)
from pedal.cait.cait_node import CaitNode
from pedal.core.location import Location
from pedal.core.feedback import Feedback

INSTANCE_CLASSES = [EnsureAssertionFeedback, PreventAssertionFeedback, CaitNode, Location, Feedback]


@spec
def wf_usage(self, uses, threshold_key):
    return (is_obj(self) and is_dict(self.fields) and has_key(self.fields, threshold_key)
            and is_int(at(self.fields, threshold_key)) and is_list(uses) and uses is not self.fields)


@target("pedal.assertions.static:EnsureAssertionFeedback._check_usage")
def _check_usage(self, field_name, uses):
    requires(wf_usage(self, uses, 'at_least'))
    requires(is_str(field_name))
    requires("count_field_is_its_own_key", field_name != 'at_least' and field_name != 'capacity')
    modifies(mapping(self.fields))
    raises_nothing()
    ensures("fires_iff_fewer", truthy(result) == (nitems(uses) < at(old(self.fields), 'at_least')))
    ensures("result_is_bool", is_bool(result))
    ensures("count_recorded", at(self.fields, field_name) == nitems(uses))
    witness(at_least=at(self.fields, 'at_least'), uses=nitems(uses))


@target("pedal.assertions.static:PreventAssertionFeedback._check_usage")
def _check_usage_prevent(self, field_name, uses):
    requires(wf_usage(self, uses, 'at_most'))
    requires(is_str(field_name))
    requires("threshold_is_a_count", at(self.fields, 'at_most') >= 0)
    requires("count_field_is_its_own_key", field_name != 'at_most' and field_name != 'capacity')
    modifies(mapping(self.fields))
    raises_nothing()
    ensures("fires_iff_more", truthy(result) == (nitems(uses) > at(old(self.fields), 'at_most')))
    ensures("count_recorded", at(self.fields, field_name) == nitems(uses))
    witness(at_most=at(self.fields, 'at_most'), uses=nitems(uses))


