"""C08: ensure_*/prevent_* thresholds and the node finders they rest on.

Top-level clauses typed from the C08 statement: ensure fires <=> count < at_least;
prevent fires <=> count > at_most; finders return exactly the matching nodes."""
from pyvc.dsl import *
from pedal.assertions.static import (EnsureAssertionFeedback, PreventAssertionFeedback, prevent_function_call,
                                     ensure_function_call, prevent_operation, ensure_operation, prevent_ast,
                                     ensure_ast)
from pedal.cait.cait_node import CaitNode
from pedal.core.location import Location
from pedal.core.feedback import Feedback
from pedal.cait.find_node import COMPARE_OP_NAMES, BOOL_OP_NAMES, BIN_OP_NAMES, UNARY_OP_NAMES

INSTANCE_CLASSES = [EnsureAssertionFeedback, PreventAssertionFeedback, CaitNode, Location, Feedback]


@spec
def wf_usage(self, uses, threshold_key):
    return (is_obj(self) and is_dict(self.fields) and has_key(self.fields, threshold_key)
            and is_int(at(self.fields, threshold_key)) and is_list(uses) and uses is not self.fields)


@target("pedal.assertions.static:EnsureAssertionFeedback._check_usage")
def _check_usage(self, field_name, uses):
    requires(wf_usage(self, uses, 'at_least'))
    requires(is_str(field_name))
    requires("count_field_is_its_own_key", field_name != 'at_least' and field_name != 'capacity')
    modifies(mapping(self.fields))
    raises_nothing()
    ensures("fires_iff_fewer", truthy(result) == (nitems(uses) < at(old(self.fields), 'at_least')))
    ensures("result_is_bool", is_bool(result))
    ensures("count_recorded", at(self.fields, field_name) == nitems(uses))
    witness(at_least=at(self.fields, 'at_least'), uses=nitems(uses))


@target("pedal.assertions.static:PreventAssertionFeedback._check_usage")
def _check_usage_prevent(self, field_name, uses):
    requires(wf_usage(self, uses, 'at_most'))
    requires(is_str(field_name))
    requires("threshold_is_a_count", at(self.fields, 'at_most') >= 0)
    requires("count_field_is_its_own_key", field_name != 'at_most' and field_name != 'capacity')
    modifies(mapping(self.fields))
    raises_nothing()
    ensures("fires_iff_more", truthy(result) == (nitems(uses) > at(old(self.fields), 'at_most')))
    ensures("count_recorded", at(self.fields, field_name) == nitems(uses))
    witness(at_most=at(self.fields, 'at_most'), uses=nitems(uses))


# ---------------------------------------------------------------------------------------------
# finders

@spec
def is_call_of(node, name):
    """a Call node whose callee is the attribute `.name` or the plain name `name`"""
    return ((node.func.ast_name == 'Attribute' and node.func.attr == name)
            or (node.func.ast_name == 'Name' and node.func.id == name))


@spec
def wf_call_nodes(L):
    return (is_list(L) and forall(lambda j: is_obj(item(L, j)) and is_obj(item(L, j).func)
                                  and is_str(item(L, j).func.ast_name)
                                  and has_attr(item(L, j).func, 'attr') and has_attr(item(L, j).func, 'id'),
                                  0, nitems(L)))


@assumed("pedal.cait.cait_api:parse_program", "CAIT parse of the submission; bounded stand-in B-findall")
def parse_program(student_code=None, report=None):
    raises_nothing()
    ensures(is_obj(result))


@spec
def wf_op_nodes(L):
    return is_list(L) and forall(lambda j: is_obj(item(L, j)) and is_str(item(L, j).op_name), 0, nitems(L))


@assumed("pedal.cait.cait_node:CaitNode.find_all",
         "returns the nodes of that kind in walk order; checked against ast.walk by the bounded stand-in B-findall")
def find_all(self, node_type):
    raises_nothing()
    ensures(is_list(result) and fresh(result))
    ensures(implies(node_type == 'Call', wf_call_nodes(result)))
    ensures(implies(node_type == 'BoolOp' or node_type == 'BinOp' or node_type == 'UnaryOp', wf_op_nodes(result)))
    ensures(same_seq(items(result), ufun_seq('find_all', self, node_type)))


@target("pedal.cait.find_node:find_function_calls")
def find_function_calls(name, root=None, report=None):
    requires(is_str(name))
    requires(instance_of(root, CaitNode))
    let(found=ufun_seq('find_all', root, 'Call'))
    define(count_def('calls_of', lambda k: is_call_of(found[k], name)))
    raises_nothing()
    invariant(1, "only_matching", forall(lambda j: is_call_of(item(calls, j), name) and item(calls, j) in found,
                                         0, nitems(calls)))
    invariant(1, "all_matching_so_far", forall(lambda k: implies(is_call_of(found[k], name), found[k] in items(calls)),
                                               0, seen))
    invariant(1, "count", nitems(calls) == count_at('calls_of', seen), modifies=[items(calls)])
    ensures("only_matching", forall(lambda j: is_call_of(item(result, j), name) and item(result, j) in found,
                                    0, nitems(result)))
    ensures("complete", forall(lambda k: implies(is_call_of(found[k], name), found[k] in items(result)),
                               0, seq_len(found)))
    ensures("count", nitems(result) == count_at('calls_of', seq_len(found)))
    ensures(is_list(result) and fresh(result))


@spec
def is_op(node, cls_name):
    return node.op_name == cls_name


@target("pedal.cait.find_node:find_operation")
def find_operation(op_name, root=None, report=None):
    """for the Boolean, binary and unary operator families: exactly the nodes of that family whose operator is the
    class the table names for the symbol, once each, in walk order.  (Comparison chains: see B-findall.)"""
    requires(is_str(op_name) and instance_of(root, CaitNode))
    requires("not_a_comparison_symbol", op_name not in COMPARE_OP_NAMES)
    let(bools=ufun_seq('find_all', root, 'BoolOp'))
    let(bins=ufun_seq('find_all', root, 'BinOp'))
    let(unaries=ufun_seq('find_all', root, 'UnaryOp'))
    define(count_def('bool_hits', lambda k: op_name in BOOL_OP_NAMES and is_op(bools[k], BOOL_OP_NAMES[op_name])))
    define(count_def('bin_hits', lambda k: op_name in BIN_OP_NAMES and is_op(bins[k], BIN_OP_NAMES[op_name])))
    define(count_def('unary_hits', lambda k: op_name in UNARY_OP_NAMES and is_op(unaries[k], UNARY_OP_NAMES[op_name])))
    raises_nothing()
    invariant(3, "only_matching", forall(lambda j: is_op(item(found, j), BOOL_OP_NAMES[op_name]) and item(found, j) in bools,
                                         0, nitems(found)))
    invariant(3, "count", nitems(found) == count_at('bool_hits', seen), modifies=[items(found)])
    invariant(4, "only_matching", forall(lambda j: is_op(item(found, j), BIN_OP_NAMES[op_name]) and item(found, j) in bins,
                                         0, nitems(found)))
    invariant(4, "count", nitems(found) == count_at('bin_hits', seen), modifies=[items(found)])
    invariant(5, "only_matching", forall(lambda j: is_op(item(found, j), UNARY_OP_NAMES[op_name]) and item(found, j) in unaries,
                                         0, nitems(found)))
    invariant(5, "count", nitems(found) == count_at('unary_hits', seen), modifies=[items(found)])
    ensures(is_list(result) and fresh(result))
    ensures("boolean_family", implies(op_name in BOOL_OP_NAMES, nitems(result) == count_at('bool_hits', seq_len(bools))
            and forall(lambda j: is_op(item(result, j), BOOL_OP_NAMES[op_name]) and item(result, j) in bools, 0, nitems(result))))
    ensures("binary_family", implies(op_name not in BOOL_OP_NAMES and op_name in BIN_OP_NAMES,
            nitems(result) == count_at('bin_hits', seq_len(bins))
            and forall(lambda j: is_op(item(result, j), BIN_OP_NAMES[op_name]) and item(result, j) in bins, 0, nitems(result))))
    ensures("unary_family", implies(op_name not in BOOL_OP_NAMES and op_name not in BIN_OP_NAMES and op_name in UNARY_OP_NAMES,
            nitems(result) == count_at('unary_hits', seq_len(unaries))
            and forall(lambda j: is_op(item(result, j), UNARY_OP_NAMES[op_name]) and item(result, j) in unaries, 0, nitems(result))))
    ensures("unknown_symbol_finds_nothing", implies(op_name not in BOOL_OP_NAMES and op_name not in BIN_OP_NAMES
                                                    and op_name not in UNARY_OP_NAMES, nitems(result) == 0))
