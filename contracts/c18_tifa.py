"""C18 (never-raises and idempotence): process_code contains every Exception of the parser and of the
analysis itself; tifa_analysis answers a repeated request from its cache without touching the report."""
from pyvc.dsl import *
from pedal.core.report import Report
from pedal.tifa.tifa_visitor import Tifa
from pedal.tifa.tifa_core import TifaAnalysis
import ast

INSTANCE_CLASSES = [Report, Tifa, TifaAnalysis]


@target("pedal.tifa.tifa_core:TifaAnalysis.fail")
def fail(self, error):
    requires(instance_of(self, TifaAnalysis))
    modifies(self.success, self.error)
    raises_nothing()
    ensures("failure_recorded", self.success is False and self.error is error)


@target("pedal.tifa.tifa_core:TifaAnalysis.__init__")
def TifaAnalysis__init__(self):
    requires(instance_of(self, TifaAnalysis))
    modifies(attrs(self))
    raises_nothing()
    ensures("starts_successful", self.success is True and self.error is None and is_dict(self.issues)
            and nkeys(self.issues) == 0)


@target("pedal.tifa.tifa_visitor:Tifa.process_code")
def process_code(self, code, filename=None, reset=True):
    requires(instance_of(self, Tifa) and is_obj(self.report) and has_attr(self, 'analysis') and is_str(code))
    requires(implies(truthy(self.report.submission), is_obj(self.report.submission) and is_dict(self.report.submission.line_offsets)
                     and has_attr(self.report.submission, 'main_file')))
    requires(has_attr(self.report, 'submission'))
    requires(self.analysis is None or (instance_of(self.analysis, TifaAnalysis) and self.analysis is not self
                                       and self.analysis is not self.report))
    requires(is_bool(reset) and (filename is None or is_str(filename)))
    abstract("ast.parse", raises=Exception, ensures=[is_obj(result)], label="ast.parse")
    abstract("self.process_ast", raises=Exception, label="process_ast",
             modifies=[attrs(self.analysis), dict_of_any(), items_of_any()])
    abstract("system_error", raises=None, modifies=[ghost('system_feedback')],
             ensures=[ghost('system_feedback') == old(ghost('system_feedback')) + 1])
    modifies(self.analysis, self.line_offset, attrs(self.analysis), ghost('system_feedback'), dict_of_any(), items_of_any())
    raises_nothing()
    ensures("returns_the_analysis", result is self.analysis and instance_of(result, TifaAnalysis))
    ensures("one_system_feedback_per_failure", ghost('system_feedback') - old(ghost('system_feedback'))
            == (ghost('raised_ast.parse') - old(ghost('raised_ast.parse'))) + (ghost('raised_process_ast') - old(ghost('raised_process_ast'))))
    ensures("failure_flagged", implies(ghost('raised_ast.parse') != old(ghost('raised_ast.parse')),
                                       result.success is False))


@assumed("pedal.core.report:Report.__getitem__", "tool data already initialised (reset-before-use is C13)")
def __getitem__(self, tool_name):
    requires(is_dict(self._tool_data) and has_key(self._tool_data, tool_name))
    raises_nothing()
    ensures(eqv(result, at(self._tool_data, tool_name)))


@spec
def tifa_data(report):
    return at(report._tool_data, 'tifa')


@target("pedal.tifa.commands:tifa_analysis")
def tifa_analysis(code=None, report=None):
    requires(instance_of(report, Report) and is_dict(report._tool_data) and has_key(report._tool_data, 'tifa')
             and is_dict(tifa_data(report)) and has_key(tifa_data(report), 'analyses') and is_dict(at(tifa_data(report), 'analyses'))
             and has_key(tifa_data(report), 'instance') and instance_of(at(tifa_data(report), 'instance'), Tifa)
             and distinct(tifa_data(report), at(tifa_data(report), 'analyses'), report._tool_data))
    requires(is_str(code))
    requires(has_attr(report, 'submission') and implies(truthy(report.submission), is_obj(report.submission)
             and is_dict(report.submission.line_offsets) and is_str(report.submission.main_file)
             and distinct(report.submission.line_offsets, tifa_data(report), at(tifa_data(report), 'analyses'), report._tool_data)))
    abstract("report[TIFA_TOOL_NAME]['instance'].process_code", raises=None, label="process_code",
             modifies=[ghost('analysed'), attr_of_any('feedback_marker')],
             ensures=[ghost('analysed') == old(ghost('analysed')) + 1, is_obj(result)])
    let(cache=at(tifa_data(report), 'analyses'))
    let(shift=(get(report.submission.line_offsets, report.submission.main_file, 0) if truthy(report.submission) else 0))
    let(key=(code, shift))
    let(hit=has_key(cache, key))
    modifies(mapping(cache), mapping(tifa_data(report)), ghost('analysed'), attr_of_any('feedback_marker'))
    raises_nothing()
    ensures("repeat_returns_the_same_object", implies(hit, result is old(at(cache, key))))
    ensures("repeat_runs_no_analysis", implies(hit, ghost('analysed') == old(ghost('analysed'))))
    ensures("repeat_leaves_the_cache_alone", implies(hit, forall_val(lambda k: at(cache, k) == old(at(cache, k)))
                                                     and eqv(at(tifa_data(report), 'latest'), old(at(tifa_data(report), 'latest')))))
    ensures("first_time_is_analysed_once_and_cached", implies(not hit, ghost('analysed') == old(ghost('analysed')) + 1
                                                              and result is at(cache, key)
                                                              and at(tifa_data(report), 'latest') is result))
