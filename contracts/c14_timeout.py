"""C14 (sequential part): what each thread does on its own.

timeout(): if the worker is still alive after the join it is told to terminate exactly once and the
caller gets a TimeoutError - never a result; if it finished, its result/exception is handed on and
nobody is terminated.  Sandbox._execute_with_timeout: a TimeoutError becomes exactly one runtime
feedback, the top patch group is stopped, and the sandbox itself is returned; anything else the
worker raised travels on without a report from here.
The interleaving of the two threads after the timeout is outside any function contract: see the
bounded stand-in B-timeout-schedules (native/c14.py) and DESIGN.md."""
from pyvc.dsl import *
from pedal.sandbox.sandbox import Sandbox
from pedal.sandbox.timeout import InterruptableThread
import sys

INSTANCE_CLASSES = [Sandbox, InterruptableThread]


@assumed("pedal.sandbox.timeout:_verif_sync",
         "verification hook: a no-op unless PEDAL_EDU_PEDAL_VERIF=1 and a checker installed a callback")
def _verif_sync(point):
    raises_nothing()


@target("pedal.sandbox.timeout:timeout", captures=['threading', 'ctypes'])
def timeout(duration, func, *args, **kwargs):
    requires(threading is not None and ctypes is not None)
    requires(is_number(duration))
    abstract("InterruptableThread", raises=None, label="new_thread",
             ensures=[exact_instance(result, InterruptableThread), fresh(result)])
    abstract("target_thread.start", raises=None, modifies=[ghost('started')],
             ensures=[ghost('started') == old(ghost('started')) + 1])
    abstract("target_thread.join", raises=None, modifies=[attrs(target_thread), ghost('joined'), ghost('worker_exc_info_value')],
             ensures=[ghost('joined') == old(ghost('joined')) + 1, is_tuple(target_thread.exc_info),
                      eqv(ghost_val('worker_exc_info_value'), target_thread.exc_info),
                      seq_len(tuple_items(target_thread.exc_info)) == 3,
                      # InterruptableThread.run() stores sys.exc_info() of an `except Exception` clause, or leaves (None, None, None)
                      tuple_items(target_thread.exc_info)[0] is None
                      or instance_of(tuple_items(target_thread.exc_info)[1], Exception)])
    abstract("target_thread.is_alive", raises=None, ensures=[is_bool(result)], label="is_alive")
    abstract("target_thread.terminate", raises=None, modifies=[ghost('terminated')],
             ensures=[ghost('terminated') == old(ghost('terminated')) + 1])
    modifies(ghost('started'), ghost('joined'), ghost('terminated'), ghost('worker_exc_info_value'), attr_of_any('__traceback__'),
             attr_of_any('exc_info'))
    raises_only(Exception)
    on_any_exit("worker_started_and_joined_once", ghost('started') == old(ghost('started')) + 1
                and ghost('joined') == old(ghost('joined')) + 1)
    on_any_exit("terminated_at_most_once", ghost('terminated') == old(ghost('terminated'))
                or ghost('terminated') == old(ghost('terminated')) + 1)
    ensures("a_result_means_nobody_was_terminated", ghost('terminated') == old(ghost('terminated')) and result is None)
    ensures_raises("a_worker_failure_is_handed_on_as_the_object_it_is", Exception,
                   implies(ghost('terminated') == old(ghost('terminated')),
                           raised is tuple_items(ghost_val('worker_exc_info_value'))[1]))
    ensures_raises("terminated_worker_means_timeout_error", Exception,
                   implies(ghost('terminated') == old(ghost('terminated')) + 1, exact_instance(raised, TimeoutError)))


@assumed("pedal.sandbox.sandbox:Sandbox._stop_patches", "verified under C04/C05: stops and forgets the top patch group")
def _stop_patches(self):
    modifies(items(self._current_patches), ghost('live_patches'), ghost('stop_patches_calls'))
    raises_nothing()
    ensures(ghost('stop_patches_calls') == old(ghost('stop_patches_calls')) + 1)


@assumed("pedal.sandbox.sandbox:Sandbox._capture_exception",
         "records the improved exception and attaches one runtime feedback (bounded stand-in B-sandbox of C04)")
def _capture_exception(self, exception, exc_info, code, filename):
    modifies(self.exception, self.feedback, attr_of_any('feedback'), ghost('runtime_feedback'), ghost('captured'))
    raises_nothing()
    ensures(self.exception is not None and ghost('runtime_feedback') == old(ghost('runtime_feedback')) + 1
            and eqv(ghost_val('captured'), exception))


@assumed("sys:exc_info", "the exception being handled")
def exc_info():
    raises_nothing()


@target("pedal.sandbox.sandbox:Sandbox._execute_with_timeout")
def _execute_with_timeout(self, code, filename, kind, **meta):
    requires(instance_of(self, Sandbox) and is_list(self._current_patches) and is_list(self._current_stdout) and is_list(self._context)
             and distinct(self._current_patches, self._current_stdout, self._context)
             and is_number(self.allowed_time) and is_dict(meta))
    abstract("timeout", raises=Exception, label="timeout",
             modifies=[items_of_any(), dict_of_any(), attr_of_any('exception'), attr_of_any('feedback'), attr_of_any('raw_output'),
                       attr_of_any('_next_context_id'), attr_of_any('result'), attr_of_any('output'),
                       ghost('live_patches'), ghost('printed')],
             on_any_exit=[forall(lambda j: is_obj(item(self._current_stdout, j)), 0, nitems(self._current_stdout))])
    abstract("abandoned_stdout.getvalue", raises=ValueError, label="getvalue", ensures=[is_str(result)])
    abstract("self.append_output", raises=None, label="append_output",
             modifies=[attr_of_any('raw_output'), attr_of_any('output'), items_of_any(), ghost('recorded_output')],
             ensures=[ghost('recorded_output') == old(ghost('recorded_output')) + 1])
    modifies(everything(), ghost('runtime_feedback'), ghost('live_patches'),
             ghost('printed'), ghost('stop_patches_calls'), ghost('captured'), ghost('recorded_output'))
    raises_only(Exception)
    ensures_raises("a_timeout_never_escapes", TimeoutError, False)
    ensures("timeout_reported_exactly_once_and_patches_stopped", implies(
        ghost('raised_timeout') == old(ghost('raised_timeout')) + 1,
        result is self and self.exception is not None and ghost('stop_patches_calls') == old(ghost('stop_patches_calls')) + 1
        and ghost('runtime_feedback') == old(ghost('runtime_feedback')) + 1 and instance_of(ghost_val('captured'), TimeoutError)))
    ensures("stdout_buffer_of_the_abandoned_run_is_dropped", implies(
        ghost('raised_timeout') == old(ghost('raised_timeout')) + 1, is_list(self._current_stdout)))
    ensures("output_of_the_abandoned_run_recorded_at_most_once",
            ghost('recorded_output') == old(ghost('recorded_output')) or
            (ghost('raised_timeout') == old(ghost('raised_timeout')) + 1
             and ghost('recorded_output') == old(ghost('recorded_output')) + 1))
    ensures("no_timeout_no_report_from_here", implies(ghost('raised_timeout') == old(ghost('raised_timeout')),
                                                      ghost('stop_patches_calls') == old(ghost('stop_patches_calls'))
                                                      and ghost('runtime_feedback') == old(ghost('runtime_feedback'))))
    ensures_raises("other_failures_travel_on_unreported", Exception,
                   ghost('stop_patches_calls') == old(ghost('stop_patches_calls'))
                   and ghost('runtime_feedback') == old(ghost('runtime_feedback')))


@assumed("pedal.sandbox.timeout:InterruptableThread.raise_exception",
         "injects the exception into the worker asynchronously; the worker may observe it before this call returns, "
         "so everything the worker's handler reads must be in place BEFORE the call (the precondition)")
def raise_exception(self, exception):
    requires("marked_as_terminated_before_the_exception_is_injected", self.terminated is True)
    raises_only(Exception)


@target("pedal.sandbox.timeout:InterruptableThread.terminate")
def terminate(self):
    requires(instance_of(self, InterruptableThread))
    modifies(self.exc_info, self.terminated)
    raises_only(Exception)
    on_any_exit("worker_is_marked", self.terminated is True)


@target("pedal.sandbox.timeout:current_thread_was_terminated", captures=['threading'])
def current_thread_was_terminated_():
    requires(threading is not None and is_obj(threading) and is_obj(ghost_val('current_thread_value')))
    abstract("threading.current_thread", raises=None, label="current_thread",
             ensures=[eqv(result, ghost_val('current_thread_value'))])
    raises_nothing()
    ensures("reads_the_mark_of_the_calling_thread", truthy(result) == (
        has_attr(ghost_val('current_thread_value'), 'terminated') and truthy(ghost_val('current_thread_value').terminated)))
