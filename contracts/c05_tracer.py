"""C05: the native tracer borrows the process-wide trace function (ghost `trace_fn` = sys.gettrace())."""
from pyvc.dsl import *
from pedal.sandbox.tracer import SandboxNativeTracer, SandboxCallTracer
import sys

INSTANCE_CLASSES = [SandboxNativeTracer, SandboxCallTracer]


@target("pedal.sandbox.tracer:SandboxNativeTracer.__enter__")
def native__enter__(self):
    requires(instance_of(self, SandboxNativeTracer) and has_attr(self, 'tracer') and is_list(self._old_tracers))
    abstract("sys.gettrace", raises=None, ensures=[eqv(result, ghost_val('trace_fn'))])
    abstract("sys.settrace", raises=None, modifies=[ghost('trace_fn')], ensures=[eqv(ghost_val('trace_fn'), arg0)])
    modifies(self.old_tracer, items(self._old_tracers), ghost('trace_fn'))
    raises_nothing()
    ensures("previous_function_pushed", same_seq(items(self._old_tracers), old(items(self._old_tracers)) + [old(ghost_val('trace_fn'))]))


@target("pedal.sandbox.tracer:SandboxNativeTracer.__exit__")
def native__exit__(self, exc_type, exc_val, traceback):
    requires(instance_of(self, SandboxNativeTracer) and has_attr(self, 'old_tracer') and is_list(self._old_tracers))
    abstract("sys.gettrace", raises=None, ensures=[eqv(result, ghost_val('trace_fn'))])
    abstract("sys.settrace", raises=None, modifies=[ghost('trace_fn')], ensures=[eqv(ghost_val('trace_fn'), arg0)])
    modifies(self.old_tracer, items(self._old_tracers), ghost('trace_fn'))
    raises_nothing()
    ensures("innermost_previous_function_restored", implies(old(nitems(self._old_tracers)) > 0,
            eqv(ghost_val('trace_fn'), old(item(self._old_tracers, nitems(self._old_tracers) - 1)))
            and nitems(self._old_tracers) == old(nitems(self._old_tracers)) - 1))
    ensures("exceptions_not_suppressed", not truthy(result))


@target("pedal.sandbox.tracer:SandboxCallTracer.__enter__")
def calls__enter__(self):
    requires(instance_of(self, SandboxCallTracer) and is_list(self._old_traces) and has_attr(self, 'trace_dispatch'))
    abstract("self.reset", raises=None, modifies=[attrs(self)], ensures=[is_list(self._old_traces),
             same_seq(items(self._old_traces), old(items(self._old_traces))), eqv(self._old_traces, old(self._old_traces)),
             has_attr(self, 'trace_dispatch')])
    abstract("sys.gettrace", raises=None, ensures=[eqv(result, ghost_val('trace_fn'))])
    abstract("sys.settrace", raises=None, modifies=[ghost('trace_fn')], ensures=[eqv(ghost_val('trace_fn'), arg0)])
    modifies(attrs(self), items(self._old_traces), ghost('trace_fn'))
    raises_nothing()
    ensures("previous_function_pushed", same_seq(items(self._old_traces), old(items(self._old_traces)) + [old(ghost_val('trace_fn'))]))


@target("pedal.sandbox.tracer:SandboxCallTracer.__exit__")
def calls__exit__(self, exc_type, exc_val, traceback):
    requires(instance_of(self, SandboxCallTracer) and is_list(self._old_traces))
    abstract("sys.settrace", raises=None, modifies=[ghost('trace_fn')], ensures=[eqv(ghost_val('trace_fn'), arg0)])
    abstract("isinstance", raises=None, ensures=[is_bool(result)])
    modifies(self.quitting, items(self._old_traces), ghost('trace_fn'))
    raises_nothing()
    ensures("innermost_previous_function_restored", implies(old(nitems(self._old_traces)) > 0,
            eqv(ghost_val('trace_fn'), old(item(self._old_traces, nitems(self._old_traces) - 1)))
            and nitems(self._old_traces) == old(nitems(self._old_traces)) - 1))
