"""C01/C02/C03: FinalFeedback.merge, finalize and the helpers they call.

Spec functions `suppressed`, `shows` are typed from the C01 statement."""
from pyvc.dsl import *
from pedal.core.feedback import Feedback
from pedal.core.final_feedback import FinalFeedback
from pedal.core.report import Report
from pedal.core.scoring import Score

CLASS_CONSTS = {Feedback: ['NEGATIVE_VALENCE', 'POSITIVE_VALENCE', 'NEUTRAL_VALENCE'],
                FinalFeedback: ['DEFAULT_NO_FEEDBACK_TITLE', 'DEFAULT_NO_FEEDBACK_MESSAGE', 'DEFAULT_NO_FEEDBACK_LABEL']}
INSTANCE_CLASSES = [Feedback, FinalFeedback, Report, Score]
TRUTH = {Feedback: 'fb_truth'}


@spec
def fb_truth(fb):
    return truthy(fb._met_condition)


@spec
def fb_attrs_exist(fb):
    return (has_attr(fb, 'category') and has_attr(fb, 'label') and has_attr(fb, 'fields') and has_attr(fb, 'message')
            and has_attr(fb, 'title') and has_attr(fb, 'correct') and has_attr(fb, 'score') and has_attr(fb, 'muted')
            and has_attr(fb, 'unscored') and has_attr(fb, 'kind') and has_attr(fb, 'valence')
            and has_attr(fb, 'else_message') and has_attr(fb, '_met_condition') and has_attr(fb, 'priority'))


@spec
def score_ok(x):
    """a score the resolver can render and parse back (C03 input domain)"""
    return x is None or (upred('score_parses', str_of(x)) and upred('score_parses', '!' + str_of(x)))


@spec
def opt_str(x):
    return x is None or is_str(x)


@spec
def opt_bool(x):
    return x is None or is_bool(x)


@spec
def wf_feedback(fb):
    """shape of a feedback object as Feedback.__init__ leaves it (C20), for any subclass"""
    return (instance_of(fb, Feedback) and fb_attrs_exist(fb)
            and opt_str(fb.category) and is_str(fb.label) and opt_str(fb.priority)
            and opt_str(fb.title) and opt_str(fb.message) and opt_str(fb.else_message) and opt_str(fb.kind)
            and opt_bool(fb.muted) and opt_bool(fb.unscored) and opt_bool(fb.correct)
            and (fb.valence is None or is_int(fb.valence))
            and not is_obj(fb._met_condition)
            and is_dict(fb.fields)
            and (fb.score is None or is_int(fb.score) or is_float(fb.score) or is_str(fb.score))
            and score_ok(fb.score))


@spec
def matches(f, fields):
    """every (key, value) of the suppression's field set equals the feedback's field"""
    return forall(lambda k: get(fields, key_at(f, k), None) == at(f, key_at(f, k)), 0, nkeys(f))


@spec
def wf_fieldsets(L, avoid):
    return (is_list(L) and L is not avoid
            and forall(lambda j: is_dict(item(L, j)) and
                       forall(lambda k: has_key(item(L, j), key_at(item(L, j), k)), 0, nkeys(item(L, j))),
                       0, nitems(L)))


@spec
def wf_suppressions(S, avoid):
    return (is_dict(S) and
            forall_val(lambda c: implies(has_key(S, c), is_dict(at(S, c)) and
                                         forall_val(lambda l: implies(has_key(at(S, c), l),
                                                                      wf_fieldsets(at(at(S, c), l), avoid))))))


@spec
def wf_labels(L, avoid):
    return is_dict(L) and forall_val(lambda l: implies(has_key(L, l), wf_fieldsets(at(L, l), avoid)))


@spec
def any_match(L, fields):
    return exists(lambda j: matches(item(L, j), fields), 0, nitems(L))


@spec
def suppressed_by_category(fb, S):
    cat = 'uncategorized' if fb.category is None else lower(fb.category)
    lab = lower(fb.label)
    return has_key(S, cat) and (has_key(at(S, cat), True) or
                                (has_key(at(S, cat), lab) and any_match(at(at(S, cat), lab), fb.fields)))


@spec
def suppressed_by_label(fb, L):
    return has_key(L, fb.label) and any_match(at(L, fb.label), fb.fields)


@spec
def suppressed(fb, S, L):
    return suppressed_by_category(fb, S) or suppressed_by_label(fb, L)


@spec
def shows(fb):
    """triggered, not muted, not a compliment"""
    return truthy(fb) and not truthy(fb.muted) and fb.kind != 'Compliment'


@spec
def wf_final(self):
    return (exact_instance(self, FinalFeedback)
            and is_list(self.considered) and is_list(self.systems) and is_list(self._scores)
            and is_list(self.positives) and is_list(self.instructions) and is_list(self.used)
            and distinct(self.considered, self.systems, self._scores, self.positives, self.instructions, self.used)
            and opt_str(self.message) and opt_bool(self.correct) and opt_str(self.title)
            and opt_str(self.label) and opt_str(self.category)
            and wf_suppressions(self.suppressions, self.considered)
            and wf_labels(self.suppressed_labels, self.considered))


@target("pedal.core.final_feedback:parse_feedback")
def parse_feedback(feedback):
    requires(is_obj(feedback) and fb_attrs_exist(feedback))
    raises_nothing()
    ensures("tuple", result == (feedback.correct, feedback.score, feedback.message,
                                feedback.title or feedback.label, feedback.fields))


@assumed("pedal.core.scoring:Score.parse", "bounded stand-in B-score checks parse against the C03 grammar")
def parse(cls, score):
    requires(is_str(score) and upred('score_parses', score))
    raises_nothing()
    ensures(exact_instance(result, Score) and fresh(result))


@assumed("pedal.core.scoring:Score.to_percent_string", "total on parsed scores; returns a str")
def to_percent_string(self):
    requires(exact_instance(self, Score))
    raises_nothing()
    ensures(is_str(result))


@target("pedal.core.final_feedback:FinalFeedback.merge")
def merge(self, feedback):
    requires(wf_final(self))
    requires(wf_feedback(feedback))
    let(supp=suppressed(feedback, self.suppressions, self.suppressed_labels))
    let(elig=not supp and shows(feedback))
    let(install=elig and feedback.message is not None and self.message is None)
    let(scored=not supp and not truthy(feedback.unscored) and feedback.score is not None)
    let(counts=(fb_truth(feedback) and feedback.valence != -1) or (not fb_truth(feedback) and feedback.valence == -1))
    modifies(items(self.considered), items(self.systems), items(self._scores), items(self.positives),
             items(self.instructions), items(self.used), self.correct, self.success, self.message, self.title,
             self.category, self.label, self.data, feedback.resolved_score)
    raises_nothing()
    invariant(1, "no_match_so_far", forall(lambda j: not matches(iterated[j], feedback.fields), 0, seen))
    invariant(2, "prefix_matches",
              forall(lambda k: get(feedback.fields, iterated[k][0], None) == iterated[k][1], 0, seen))
    invariant(3, "no_match_so_far", forall(lambda j: not matches(iterated[j], feedback.fields), 0, seen))
    invariant(4, "prefix_matches",
              forall(lambda k: get(feedback.fields, iterated[k][0], None) == iterated[k][1], 0, seen))
    cut("not_suppressed", not supp,
        same_seq(items(self.considered), old(items(self.considered)) + [feedback]),
        self.message == old(self.message) and self.label == old(self.label) and self.title == old(self.title)
        and self.category == old(self.category) and self.correct == old(self.correct),
        same_seq(items(self._scores), old(items(self._scores))),
        before="correct, partial, message, title, data = parse_feedback(feedback)")
    cut("scored", not supp,
        same_seq(items(self.considered), old(items(self.considered)) + [feedback]),
        self.message == old(self.message) and self.label == old(self.label) and self.title == old(self.title)
        and self.category == old(self.category) and self.correct == old(self.correct),
        correct == feedback.correct and message == feedback.message and title == (feedback.title or feedback.label)
        and data == feedback.fields,
        implies(scored, same_seq(items(self._scores), old(items(self._scores))
                                 + [(str_of(feedback.score) if counts else '!' + str_of(feedback.score))])),
        implies(not scored, same_seq(items(self._scores), old(items(self._scores)))),
        before="""if not feedback and feedback.else_message:
    self.positives.append(feedback)
    return feedback""")
    ensures("considered", same_seq(items(self.considered), old(items(self.considered)) + [feedback]))
    ensures("suppressed_skipped", implies(supp, result is None))
    ensures("message_installed", implies(install, self.message == feedback.message and self.label == feedback.label
                                         and self.category == feedback.category
                                         and self.title == (feedback.title or feedback.label)))
    ensures("message_kept", implies(not install, self.message == old(self.message) and self.label == old(self.label)
                                    and self.category == old(self.category) and self.title == old(self.title)))
    ensures("correct_updated", implies(elig, truthy(self.correct) == (truthy(feedback.correct) and truthy(old(self.correct)))))
    ensures("correct_kept", implies(not elig, self.correct == old(self.correct)))
    ensures("success_is_correct", implies(elig, self.success == self.correct))
    # C03: which feedback leaves an entry in the score list, and whether that entry counts ('!' = does not count).
    # Taken from the statement: unsuppressed, not unscored, carrying a score; counts when triggered and not negative,
    # or untriggered and negative; muting and else_message play no part.
    ensures("score_recorded_once", implies(scored, same_seq(
        items(self._scores), old(items(self._scores)) + [(str_of(feedback.score) if counts else '!' + str_of(feedback.score))])))
    ensures("score_untouched_otherwise", implies(not scored, same_seq(items(self._scores), old(items(self._scores)))))
