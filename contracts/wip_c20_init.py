"""work in progress (not part of any check): Feedback.__init__ - 877 paths, too slow and contract not yet right"""
from pyvc.dsl import *
from pedal.core.feedback import Feedback
from pedal.core.report import Report
from pedal.core.location import Location

INSTANCE_CLASSES = [Feedback, Report, Location]

@spec
def opt(x, pred_str):
    return x is None or pred_str


@assumed("pedal.core.report:Report.get_current_group", "last element of report.groups or None")
def get_current_group(self):
    raises_nothing()
    ensures(parent_ok(result))


@assumed("pedal.core.location:Location.__init__", "plain data holder")
def Location__init__(self, line, col=None, end_line=None, end_col=None, filename=None):
    modifies(attrs(self))
    raises_nothing()
    ensures(eqv(self.line, line))


@target("pedal.core.feedback:Feedback.__init__")
def __init__(self, *args, label=None, category=None, justification=None, fields=None, field_names=None, kind=None,
             title=None, message=None, message_template=None, else_message=None, else_message_template=None,
             priority=None, valence=None, location=None, score=None, correct=None, muted=None, unscored=None,
             tool=None, version=None, author=None, tags=None, parent=None, report=None, delay_condition=False,
             activate=True, **kwargs):
    requires(instance_of(self, Feedback) and wf_report20(report) and is_tuple(args) and is_dict(kwargs))
    requires(fields is None or (is_dict(fields) and fields is not kwargs))
    requires(parent_ok(parent) and parent_ok(self.parent))
    requires(self.constant_fields is None or (is_dict(self.constant_fields) and self.constant_fields is not kwargs))
    requires(field_names is None and self.field_names is None)
    requires(label is None or is_str(label))
    abstract("self._handle_condition", raises=Exception, label="self._handle_condition",
             modifies=[items(report.feedback), items(report.ignored_feedback), self._met_condition, self._status,
                       self._exception, self.message, self.else_message, self.justification, self.unused_message])
    modifies(attrs(self), items(report.feedback), items(report.ignored_feedback), dict_of_any())
    raises_only(Exception)
    invariant(2, "extra_keywords_copied", is_dict(self.fields)
              and forall(lambda j: at(self.fields, iterated[j][0]) == iterated[j][1], 0, seen),
              modifies=[mapping(self.fields)])
    ensures("report_attached", self.report is report)
    ensures("label", implies(label is not None, self.label is label))
    ensures("explicit_settings_win", implies(category is not None, self.category is category)
            and implies(kind is not None, self.kind is kind) and implies(priority is not None, self.priority is priority)
            and implies(message is not None and truthy(delay_condition), self.message is message)
            and implies(score is not None, self.score is score) and implies(correct is not None, self.correct is correct)
            and implies(muted is not None, self.muted is muted) and implies(unscored is not None, self.unscored is unscored))
    ensures("fields_is_a_dict", is_dict(self.fields))
    ensures("delayed_condition_touches_nothing", implies(truthy(delay_condition),
            same_seq(items(report.feedback), old(items(report.feedback)))
            and same_seq(items(report.ignored_feedback), old(items(report.ignored_feedback)))
            and self._status == 'delayed' and self._met_condition is False))
    ensures("stored_arguments", self._stored_args is args and self._stored_kwargs is kwargs)
