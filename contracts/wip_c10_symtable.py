"""work in progress (not part of any check, nothing here is counted): AstMap.add_x_to_sym_table.
First attempt: 1653 paths (1160 dead), four postconditions undecided or refuted - the three-table loop with the
aliasing case split on x_table needs a cut and a sharper precondition before it is worth another try."""
from pyvc.dsl import *
from pedal.cait.ast_map import AstMap, AstSymbol, AstSymbolList
from pedal.cait.cait_node import CaitNode

INSTANCE_CLASSES = [AstMap, AstSymbol, AstSymbolList, CaitNode]
SEQUENCE_VIEW = {AstSymbolList: 'my_list'}


@spec
def symbols_ok(L, avoid):
    """an AstSymbolList whose list holds symbol objects with an id"""
    return (exact_instance(L, AstSymbolList) and is_list(L.my_list) and L.my_list is not avoid
            and forall(lambda j: is_obj(item(L.my_list, j)) and has_attr(item(L.my_list, j), 'id'), 0, nitems(L.my_list)))


@spec
def entry_ok(T, key, avoid):
    return implies(has_key(T, key), symbols_ok(at(T, key), avoid))


@spec
def some_other_id(T, key, the_id):
    return has_key(T, key) and exists(lambda j: item(at(T, key).my_list, j).id != the_id, 0, nitems(at(T, key).my_list))


@target("pedal.cait.ast_map:AstMap.add_x_to_sym_table")
def add_x_to_sym_table(self, key, value, x_table):
    """a placeholder whose occurrences (in whichever table) do not all carry the identifier of the new occurrence is
    recorded in conflict_keys - so a map without conflicts binds each placeholder to a single identifier"""
    requires(wf_map(self) and is_str(key) and is_obj(value) and has_attr(value, 'id'))
    requires(x_table is self.symbol_table or x_table is self.func_table or x_table is self.class_table)
    requires(entry_ok(self.symbol_table, key, self.conflict_keys) and entry_ok(self.func_table, key, self.conflict_keys)
             and entry_ok(self.class_table, key, self.conflict_keys))
    requires(distinct(self.conflict_keys, self.symbol_table) and distinct(self.conflict_keys, self.func_table)
             and distinct(self.conflict_keys, self.class_table))
    modifies(mapping(x_table), items(self.conflict_keys), items_of_any())
    raises_nothing()
    ensures("occurrence_recorded", has_key(x_table, key) and value in items(at(x_table, key).my_list))
    ensures("a_differing_identifier_is_a_conflict", implies(
        some_other_id(self.symbol_table, key, value.id) or some_other_id(self.func_table, key, value.id)
        or some_other_id(self.class_table, key, value.id), key in items(self.conflict_keys)))
    ensures("no_conflict_invented", implies(
        key in items(self.conflict_keys) and not (key in old(items(self.conflict_keys))),
        some_other_id(self.symbol_table, key, value.id) or some_other_id(self.func_table, key, value.id)
        or some_other_id(self.class_table, key, value.id)))
    ensures("earlier_conflicts_kept", forall(lambda j: old(item(self.conflict_keys, j)) in items(self.conflict_keys),
                                             0, old(nitems(self.conflict_keys))))
    ensures("returns_the_number_of_conflicts", result == nitems(self.conflict_keys))
