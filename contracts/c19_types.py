"""C19 (symbolic part): apply_binary_operation / apply_unary_operation always hand back a pedal Type,
pass AnyType operands through, promote literals on both sides before the table lookup, and answer
ImpossibleType exactly when a lookup level misses.  The table's CONTENT against CPython is the
exhaustive ground check of native/c19.py."""
from pyvc.dsl import *
from pedal.types.new_types import (Type, AnyType, ImpossibleType, NumType, IntType, FloatType, StrType, BoolType,
                                   TupleType, ListType, SetType, LiteralValue, ElementContainerType)
from pedal.types import operations
import ast

INSTANCE_CLASSES = [Type, LiteralValue]


@assumed("pedal.types.new_types:Type.__init__", "plain initialisation of a type object")
def Type__init__(self):
    modifies(attrs(self))
    raises_nothing()


@assumed("pedal.types.new_types:StrType.__init__", "plain initialisation of a type object")
def StrType__init__(self, is_empty=False):
    modifies(attrs(self))
    raises_nothing()


@assumed("pedal.types.new_types:TupleType.__init__", "stores the element types")
def TupleType__init__(self, element_types=None):
    modifies(attrs(self))
    raises_nothing()
    ensures(eqv(self.element_types, element_types))


@assumed("pedal.types.new_types:LiteralValue.promote", "the non-literal type of a literal (LiteralInt -> IntType, ...)")
def promote(self):
    raises_nothing()
    ensures(instance_of(result, Type) and not instance_of(result, LiteralValue) and not instance_of(result, AnyType))


@assumed("pedal.types.new_types:Type.clone", "a copy of the type")
def clone(self):
    raises_nothing()
    ensures(instance_of(result, Type))


@target("pedal.types.operations:NumType_any")
def NumType_any(*x):
    raises_nothing()
    ensures(exact_instance(result, NumType))


@target("pedal.types.operations:IntType_any")
def IntType_any(*x):
    raises_nothing()
    ensures(exact_instance(result, IntType))


@target("pedal.types.operations:FloatType_any")
def FloatType_any(*x):
    raises_nothing()
    ensures(exact_instance(result, FloatType))


@target("pedal.types.operations:StrType_any")
def StrType_any(*x):
    raises_nothing()
    ensures(exact_instance(result, StrType))


@target("pedal.types.operations:BoolType_any")
def BoolType_any(*x):
    raises_nothing()
    ensures(exact_instance(result, BoolType))


@target("pedal.types.operations:keep_left")
def keep_left(left, right):
    raises_nothing()
    ensures(result is left)


@target("pedal.types.operations:keep_right")
def keep_right(left, right):
    raises_nothing()
    ensures(result is right)


@target("pedal.types.operations:add_tuples")
def add_tuples(left, right):
    requires(instance_of(left, TupleType) and instance_of(right, TupleType) and is_tuple(left.element_types)
             and is_tuple(right.element_types))
    raises_nothing()
    ensures("sum_of_tuples_is_a_tuple_type", exact_instance(result, TupleType)
            and eqv(result.element_types, left.element_types + right.element_types))


@target("pedal.types.operations:add_element_container_types")
def add_element_container_types(left, right):
    requires(instance_of(left, ElementContainerType) and instance_of(right, ElementContainerType) and has_attr(left, 'is_empty'))
    raises_nothing()
    ensures(instance_of(result, Type))


@spec
def wf_type(t):
    return (instance_of(t, Type) and implies(instance_of(t, TupleType), is_tuple(t.element_types))
            and implies(instance_of(t, ElementContainerType), has_attr(t, 'is_empty')))


@target("pedal.types.operations:apply_binary_operation")
def apply_binary_operation(operation, left, right):
    requires(is_obj(operation) and wf_type(left) and wf_type(right))
    abstract("left.promote", raises=None, ensures=[wf_type(result) and not instance_of(result, LiteralValue)
                                                   and not instance_of(result, AnyType)])
    abstract("right.promote", raises=None, ensures=[wf_type(result) and not instance_of(result, LiteralValue)
                                                    and not instance_of(result, AnyType)])
    raises_nothing()
    ensures("always_a_pedal_type", instance_of(result, Type))
    ensures("any_on_the_left_passes_the_right_through", implies(instance_of(left, AnyType), result is right))
    ensures("any_on_the_right_passes_the_left_through", implies(not instance_of(left, AnyType) and instance_of(right, AnyType),
                                                                result is left))
