"""work in progress: finders of C08 (not yet part of the check)"""
from pyvc.dsl import *
from pedal.cait.cait_node import CaitNode

INSTANCE_CLASSES = [CaitNode]

# ---------------------------------------------------------------------------------------------
# finders

@spec
def is_call_of(node, name):
    """a Call node whose callee is the attribute `.name` or the plain name `name`"""
    return ((node.func.ast_name == 'Attribute' and node.func.attr == name)
            or (node.func.ast_name == 'Name' and node.func.id == name))


@spec
def wf_call_nodes(L):
    return (is_list(L) and forall(lambda j: is_obj(item(L, j)) and is_obj(item(L, j).func)
                                  and is_str(item(L, j).func.ast_name)
                                  and has_attr(item(L, j).func, 'attr') and has_attr(item(L, j).func, 'id'),
                                  0, nitems(L)))


@assumed("pedal.cait.cait_api:parse_program", "CAIT parse of the submission; bounded stand-in B-findall")
def parse_program(student_code=None, report=None):
    raises_nothing()
    ensures(is_obj(result))


@assumed("pedal.cait.cait_node:CaitNode.find_all",
         "returns the nodes of that kind in walk order; checked against ast.walk by the bounded stand-in B-findall")
def find_all(self, node_type):
    raises_nothing()
    ensures(is_list(result) and fresh(result))
    ensures(implies(node_type == 'Call', wf_call_nodes(result)))
    ensures(same_seq(items(result), ufun_seq('find_all', self, node_type)))


@target("pedal.cait.find_node:find_function_calls")
def find_function_calls(name, root=None, report=None):
    requires(is_str(name))
    requires(instance_of(root, CaitNode))
    let(found=ufun_seq('find_all', root, 'Call'))
    define(count_def('calls_of', lambda k: is_call_of(found[k], name)))
    raises_nothing()
    invariant(1, "only_matching", forall(lambda j: is_call_of(item(calls, j), name) and item(calls, j) in found,
                                         0, nitems(calls)))
    invariant(1, "all_matching_so_far", forall(lambda k: implies(is_call_of(found[k], name), found[k] in items(calls)),
                                               0, seen))
    invariant(1, "count", nitems(calls) == count_at('calls_of', seen), modifies=[items(calls)])
    ensures("only_matching", forall(lambda j: is_call_of(item(result, j), name) and item(result, j) in found,
                                    0, nitems(result)))
    ensures("complete", forall(lambda k: implies(is_call_of(found[k], name), found[k] in items(result)),
                               0, seq_len(found)))
    ensures("count", nitems(result) == count_at('calls_of', seq_len(found)))
    ensures(is_list(result) and fresh(result))
