"""C14 (the abandoned worker's view of Sandbox._execute).

Once the waiting thread has given up on a threaded execution (timeout() marked the worker as terminated), that
worker must not touch the sandbox again, however its student code ends - by the injected SystemExit, by an
exception of its own after swallowing the interruption, or by running to its end: the waiting thread has already
stopped the patches and reported the timeout and may be running the next execution.  In this view
current_thread_was_terminated() answers True whenever it is asked; _stop_mocking and _capture_exception are
counted by ghost counters that must not move.  (The sequential view, where it answers False, is contracts/c05_patches.py.)"""
from pyvc.dsl import *
from pedal.sandbox.sandbox import Sandbox
from pedal.sandbox.data import SandboxContext
from pedal.sandbox.tracer import SandboxBasicTracer, SandboxNativeTracer
import sys
import io

INSTANCE_CLASSES = [Sandbox, SandboxContext, SandboxBasicTracer]

@spec
def wf_stacks(self):
    return (instance_of(self, Sandbox) and is_list(self._current_patches) and is_list(self._current_stdout)
            and self._current_patches is not self._current_stdout
            and forall(lambda j: is_tuple(item(self._current_patches, j)), 0, nitems(self._current_patches)))


@spec
def patch_groups_hold_objects(self):
    return forall(lambda j, k: implies(0 <= k and k < seq_len(tuple_items(item(self._current_patches, j))),
                                       is_obj(tuple_items(item(self._current_patches, j))[k])),
                  0, nitems(self._current_patches))


@spec
def wf_sandbox(self):
    return (wf_stacks(self) and patch_groups_hold_objects(self) and is_list(self.output) and is_list(self._context)
            and is_dict(self.data) and is_int(self._next_context_id) and instance_of(self.trace, SandboxBasicTracer)
            and is_obj(self.report) and has_attr(self, 'target') and has_attr(self, 'exception')
            and has_attr(self.report, 'submission')
            and forall(lambda j: is_obj(item(self._current_stdout, j)), 0, nitems(self._current_stdout))
            and distinct(self.output, self._current_patches, self._current_stdout, self._context))


@assumed("pedal.sandbox.sandbox:Sandbox._start_mocking",
         "pushes one stdout buffer and one group of three started patches (sys.modules, sys.stdout, time.sleep); "
         "observed by the bounded stand-in B-sandbox")
def _start_mocking(self, context):
    requires(wf_stacks(self))
    modifies(items(self._current_patches), items(self._current_stdout), ghost('live_patches'), dict_of_any())
    raises_nothing()
    ensures(nitems(self._current_stdout) == old(nitems(self._current_stdout)) + 1)
    ensures(nitems(self._current_patches) == old(nitems(self._current_patches)) + 1)
    ensures(forall(lambda j: eqv(item(self._current_stdout, j), old(item(self._current_stdout, j))), 0,
                   old(nitems(self._current_stdout))))
    ensures(forall(lambda j: eqv(item(self._current_patches, j), old(item(self._current_patches, j))), 0,
                   old(nitems(self._current_patches))))
    ensures(is_obj(item(self._current_stdout, nitems(self._current_stdout) - 1)))
    ensures(is_tuple(item(self._current_patches, nitems(self._current_patches) - 1))
            and seq_len(tuple_items(item(self._current_patches, nitems(self._current_patches) - 1))) == 3
            and forall(lambda k: is_obj(tuple_items(item(self._current_patches, nitems(self._current_patches) - 1))[k]), 0, 3))
    ensures(ghost('live_patches') == old(ghost('live_patches')) + 3)


@assumed("pedal.sandbox.sandbox:Sandbox._stop_mocking", "verified under C05; here only counted")
def _stop_mocking(self, context):
    modifies(items(self._current_patches), items(self._current_stdout), ghost('live_patches'), self.raw_output,
             attr_of_any('output'), items(self.output), ghost('worker_stopped_mocking'))
    raises_only(ValueError)
    on_any_exit(ghost('worker_stopped_mocking') == old(ghost('worker_stopped_mocking')) + 1)


@assumed("pedal.sandbox.sandbox:Sandbox._capture_exception", "builds and attaches the runtime feedback; here only counted")
def _capture_exception(self, exception, exc_info, code, filename):
    modifies(self.exception, self.feedback, attr_of_any('feedback'), ghost('worker_reported'))
    raises_only(Exception)
    on_any_exit(ghost('worker_reported') == old(ghost('worker_reported')) + 1)


@assumed("pedal.sandbox.sandbox:Sandbox.clear_exception", "sets exception and feedback to None")
def clear_exception(self):
    modifies(self.exception, self.feedback)
    raises_nothing()
    ensures(self.exception is None and self.feedback is None)


@assumed("pedal.sandbox.data:SandboxContext.__init__", "plain record of one execution")
def SandboxContext__init__(self, context_id, code, filename, kind, target, inputs, output, exception, submission, **meta):
    modifies(attrs(self))
    raises_nothing()


@assumed("pedal.sandbox.tracer:SandboxBasicTracer.as_filename", "remembers the file being traced; returns the tracer")
def as_filename(self, filename, code):
    modifies(self.filename, self.code)
    raises_nothing()
    ensures(result is self)


@assumed("pedal.sandbox.tracer:SandboxBasicTracer.__enter__", "tracer context managers install their trace function")
def tracer__enter__(self):
    modifies(ghost('trace_installed'))
    raises_nothing()
    ensures(ghost('trace_installed') == old(ghost('trace_installed')) + 1)


@assumed("pedal.sandbox.tracer:SandboxBasicTracer.__exit__", "and remove it again; exceptions are not suppressed")
def tracer__exit__(self, exc_type, exc_val, traceback):
    modifies(ghost('trace_installed'))
    raises_nothing()
    ensures(result is None and ghost('trace_installed') == old(ghost('trace_installed')) - 1)


@assumed("sys:exc_info", "the exception being handled")
def exc_info():
    raises_nothing()


@assumed("pedal.sandbox.timeout:_verif_sync",
         "verification hook: a no-op unless PEDAL_EDU_PEDAL_VERIF=1 and a checker installed a callback")
def _verif_sync(point):
    raises_nothing()


@assumed("pedal.sandbox.timeout:current_thread_was_terminated",
         "abandoned view: the calling thread is a worker that timeout() has marked as terminated (its own contract, "
         "result == the thread's `terminated` flag, is verified in contracts/c14_timeout.py)")
def current_thread_was_terminated():
    raises_nothing()
    ensures(result is True)


@target("pedal.sandbox.sandbox:Sandbox._execute")
def _execute(self, code, filename, kind, threaded, **meta):
    requires(wf_sandbox(self) and not truthy(threaded) and is_dict(meta))
    abstract("compile", raises=Exception)
    abstract("exec", raises=BaseException, modifies=[mapping(self.data), ghost('printed')])
    modifies(self.exception, self.feedback, attr_of_any('feedback'), items(self._context), mapping(self.data),
             items(self._current_patches), items(self._current_stdout), ghost('live_patches'), ghost('trace_installed'),
             ghost('printed'), self.raw_output, items(self.output), attr_of_any('output'), self._next_context_id,
             self.trace.filename, self.trace.code, dict_of_any(), ghost('worker_stopped_mocking'), ghost('worker_reported'))
    raises_nothing()
    on_any_exit("abandoned_worker_stops_no_patches", ghost('worker_stopped_mocking') == old(ghost('worker_stopped_mocking')))
    on_any_exit("abandoned_worker_reports_nothing", ghost('worker_reported') == old(ghost('worker_reported')))
    ensures("returns_the_sandbox", result is self)
