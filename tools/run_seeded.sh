#!/bin/sh
# run_seeded.sh [name ...] : apply each seeded change to /repo, run its property's quick check, undo it,
# and record what caught it in seeded/<name>/detected.json
cd /verif
names="$@"
[ -z "$names" ] && names=$(ls seeded)
for n in $names; do
  prop=$(python3 -c "import json;print(json.load(open('seeded/$n/meta.json'))['property'])")
  git -C /repo apply /verif/seeded/$n/patch.diff || { echo "$n: patch does not apply"; continue; }
  out=$(PEDAL_EDU_PEDAL_VERIF=1 ./check $prop --tier quick 2>&1); rc=$?
  git -C /repo checkout -- .
  echo "== $n ($prop) exit=$rc"
  echo "$out" | grep -E "VIOLATION|UNDECIDED|ENGINE|failed obligation" | head -8
  echo "$out" | python3 -c "
import sys, json, re
text = sys.stdin.read()
obl = re.findall(r'failed obligation: (\S+)', text)
viol = re.findall(r'^VIOLATION .*$', text, re.M)
json.dump({'seed': '$n', 'property': '$prop', 'check_exit': $rc, 'failed_obligations': sorted(set(obl)),
           'violation_lines': len(viol), 'no_failing_input_found': sum(1 for v in viol if v.endswith('no-failing-input-found'))},
          open('seeded/$n/detected.json', 'w'), indent=1)
"
done
