#!/bin/sh
# run_seeded.sh [name ...] : apply each seeded change to /repo, run its property's quick check, undo it.
cd /verif
names="$@"
[ -z "$names" ] && names=$(ls seeded)
for n in $names; do
  prop=$(python3 -c "import json;print(json.load(open('seeded/$n/meta.json'))['property'])")
  git -C /repo apply /verif/seeded/$n/patch.diff || { echo "$n: patch does not apply"; continue; }
  out=$(./check $prop --tier quick 2>&1); rc=$?
  git -C /repo checkout -- .
  echo "== $n ($prop) exit=$rc"
  echo "$out" | grep -E "VIOLATION|UNDECIDED|ENGINE|failed obligation" | head -8
done
