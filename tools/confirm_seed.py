#!/usr/bin/env python3
"""confirm_seed.py <agent_out_dir> <property> <k> <name>
Confirm, in a fresh scratch worktree of /repo, that a proposed breaking change compiles, keeps the
test suite at its baseline, and makes its demonstration fail (and that the demonstration passes
without it); then store it as /verif/seeded/<name>/ (patch.diff, demo.py, meta.json)."""
import json, os, shutil, subprocess, sys, tempfile

out, prop, k, name = sys.argv[1:5]
wt = tempfile.mkdtemp(prefix='confirm_', dir='/tmp')
os.rmdir(wt)
run = lambda cmd, **kw: subprocess.run(cmd, shell=True, capture_output=True, text=True, **kw)
assert run('git -C /repo worktree add -q --detach %s HEAD' % wt).returncode == 0
# demos may pin the path of the tree they were written in: they are stored with /tmp/pedal_tree in its place, a
# symbolic link that whoever runs a demo points at the tree under test (PYTHONPATH=/tmp/pedal_tree)
LINK = '/tmp/pedal_tree'
agent_wt = os.path.dirname(os.path.abspath(out.rstrip('/')))
run('ln -sfn %s %s' % (wt, LINK))
env = dict(os.environ, PYTHONPATH=LINK)
try:
    patch = os.path.join(out, 'mutant%s.diff' % k)
    demo_src = open(os.path.join(out, 'demo%s.py' % k)).read()
    # ... or derive it from their own location (<tree>/out/demo.py)
    own_location = "os.path.dirname(os.path.dirname(os.path.abspath(__file__)))"
    pinned = agent_wt in demo_src or own_location in demo_src
    demo_src = demo_src.replace(own_location, repr(LINK))
    demo = os.path.join(tempfile.mkdtemp(prefix='demo_', dir='/tmp'), 'demo.py')
    open(demo, 'w').write(demo_src.replace(agent_wt, LINK).replace('realpath(pedal.__file__)', 'abspath(pedal.__file__)'))
    r0 = run('/venv/bin/python %s' % demo, cwd=wt, env=env)
    ap = run('git apply %s' % patch, cwd=wt)
    assert ap.returncode == 0, ap.stderr
    imp = run('/venv/bin/python -c "import pedal; print(pedal.__file__)"', cwd=wt, env=env).stdout.strip()
    t = run('/venv/bin/python -m pytest -q -p no:cacheprovider --timeout=900 2>&1 | tail -1', cwd=wt, env=env)
    r1 = run('/venv/bin/python %s' % demo, cwd=wt, env=env)
    ok = (r0.returncode == 0 and r1.returncode != 0 and '493 passed' in t.stdout and '10 failed' in t.stdout
          and (imp.startswith(wt) or imp.startswith(LINK)))
    print(name, 'demo clean rc=%d, demo mutated rc=%d, tests: %s, import: %s => %s' % (
        r0.returncode, r1.returncode, t.stdout.strip(), imp, 'CONFIRMED' if ok else 'REJECTED'))
    if ok:
        d = os.path.join('/verif/seeded', name)
        os.makedirs(d, exist_ok=True)
        shutil.copy(patch, os.path.join(d, 'patch.diff'))
        shutil.copy(demo, os.path.join(d, 'demo.py'))
        note = open(os.path.join(out, 'note%s.txt' % k)).read() if os.path.exists(os.path.join(out, 'note%s.txt' % k)) else ''
        json.dump({'property': prop, 'needs_to_manifest': note.strip(),
                   'how_to_run_demo': ('ln -sfn <tree under test> /tmp/pedal_tree; PYTHONPATH=/tmp/pedal_tree /venv/bin/python demo.py'
                                       if pinned else 'PYTHONPATH=<tree under test> /venv/bin/python demo.py'),
                   'confirmed': {'base_commit': run('git -C /repo rev-parse --short HEAD').stdout.strip(),
                                 'demo_on_clean_tree': 'exit %d' % r0.returncode,
                                 'demo_with_change': 'exit %d: %s' % (r1.returncode, (r1.stdout + r1.stderr)[-300:]),
                                 'test_suite_with_change': t.stdout.strip(),
                                 'commands': ['git worktree add --detach <scratch> HEAD', '/venv/bin/python demo.py',
                                              'git apply patch.diff', '/venv/bin/python -m pytest -q -p no:cacheprovider --timeout=900',
                                              '/venv/bin/python demo.py']}},
                  open(os.path.join(d, 'meta.json'), 'w'), indent=1)
finally:
    run('git -C /repo worktree remove --force %s' % wt)
    shutil.rmtree(os.path.dirname(demo), ignore_errors=True)
