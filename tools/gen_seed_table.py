#!/usr/bin/env python3
"""Markdown table of the seeded changes and what caught each (from seeded/*/detected.json and meta.json)."""
import glob
import json
import os
import re

ROOT = os.path.dirname(os.path.dirname(os.path.abspath(__file__)))
rows = []
stats = []
for d in sorted(glob.glob(os.path.join(ROOT, 'seeded', '*'))):
    name = os.path.basename(d)
    try:
        det = json.load(open(os.path.join(d, 'detected.json')))
    except OSError:
        det = {'check_exit': '?', 'failed_obligations': []}
    patch = open(os.path.join(d, 'patch.diff')).read()
    files = sorted(set(re.findall(r'^\+\+\+ b/(\S+)', patch, re.M)))
    kinds = set()
    short = []
    for o in det['failed_obligations']:
        if o.startswith('bounded:'):
            kinds.add('bounded')
            short.append(o.split(':', 1)[1])
        elif o.startswith('ground:'):
            kinds.add('ground')
            short.append(o)
        else:
            kinds.add('deductive')
            short.append(o.split(':', 1)[1] if ':' in o else o)
    order = [k for k in ('deductive', 'ground', 'bounded') if k in kinds]
    try:
        meta = json.load(open(os.path.join(d, 'meta.json')))
    except OSError:
        meta = {}
    if meta.get('neutralised'):
        order = ['(neutralised by a later repair of pedal)']
    stats.append((name, det['check_exit'], tuple(order), bool(meta.get('neutralised')), det.get('property') or meta.get('property'),
                  det.get('no_failing_input_found', 0), det.get('violation_lines', 0)))
    shown = '; '.join(short[:3]) + (' …(+%d)' % (len(short) - 3) if len(short) > 3 else '')
    rows.append('| %s | %s | %s | %s | %s |' % (name, ', '.join(f.replace('pedal/', '') for f in files), det['check_exit'],
                                            ' + '.join(order) or '-', shown.replace('|', '\\|')))
print('| seed | file changed | check exit | caught by | failed obligations |')
print('|------|--------------|------------|-----------|--------------------|')
print('\n'.join(rows))

live = [x for x in stats if not x[3]]
n = len(live)
det = [x for x in live if x[1] == 1]
ded = [x for x in det if 'deductive' in x[2]]
ded_only = [x for x in det if x[2] == ('deductive',)]
ground = [x for x in det if 'ground' in x[2]]
bounded_only = [x for x in det if x[2] == ('bounded',)]
print()
print('Summary: %d seeded changes (%d neutralised by later repairs and not counted); %d of the remaining %d end with exit 1. '
      '%d are caught by a failed contract obligation (%d of them by nothing else), %d by a table cell, %d only by a bounded '
      'stand-in. Not detected: %s.' % (len(stats), len(stats) - n, len(det), n, len(ded), len(ded_only), len(ground), len(bounded_only),
                                       ', '.join(x[0] for x in live if x[1] != 1) or 'none'))
by_round = {}
for x in live:
    r = re.search(r'_r(\d)m', x[0])
    by_round.setdefault(int(r.group(1)) if r else 1, []).append(x)
print('Per round: ' + '; '.join('round %d: %d' % (k, len(v)) for k, v in sorted(by_round.items())))
