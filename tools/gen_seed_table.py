#!/usr/bin/env python3
"""Markdown table of the seeded changes and what caught each (from seeded/*/detected.json and meta.json)."""
import glob
import json
import os
import re

ROOT = os.path.dirname(os.path.dirname(os.path.abspath(__file__)))
rows = []
for d in sorted(glob.glob(os.path.join(ROOT, 'seeded', '*'))):
    name = os.path.basename(d)
    try:
        det = json.load(open(os.path.join(d, 'detected.json')))
    except OSError:
        det = {'check_exit': '?', 'failed_obligations': []}
    patch = open(os.path.join(d, 'patch.diff')).read()
    files = sorted(set(re.findall(r'^\+\+\+ b/(\S+)', patch, re.M)))
    kinds = set()
    short = []
    for o in det['failed_obligations']:
        if o.startswith('bounded:'):
            kinds.add('bounded')
            short.append(o.split(':', 1)[1])
        elif o.startswith('ground:'):
            kinds.add('ground')
            short.append(o)
        else:
            kinds.add('deductive')
            short.append(o.split(':', 1)[1] if ':' in o else o)
    order = [k for k in ('deductive', 'ground', 'bounded') if k in kinds]
    shown = '; '.join(short[:3]) + (' …(+%d)' % (len(short) - 3) if len(short) > 3 else '')
    rows.append('| %s | %s | %s | %s | %s |' % (name, ', '.join(f.replace('pedal/', '') for f in files), det['check_exit'],
                                            ' + '.join(order) or '-', shown.replace('|', '\\|')))
print('| seed | file changed | check exit | caught by | failed obligations |')
print('|------|--------------|------------|-----------|--------------------|')
print('\n'.join(rows))
